"""C03 -- the frequency grid obeys the DFT and stepping constraints."""
from . import sched as SC
from .C02 import split, ob_ltf, ob_vec, ob_new, encoded_functions, ob_whole_plan, whole_plan_obligations


def ob_ltf_tail(W, sched):
    return SC.ob_ltf_tail(W, sched)

PROPERTY = "C03"
META = {
    "bounds": "(thorough tier additionally: whole plans of ltf/lpsd at N=8, Jdes=1, fs=1 executed path by path, see C02) one loop iteration of each scheduler from an ARBITRARY state fi in [fmin,fmax); N>=8 symbolic and unbounded; all configuration parameters symbolic; vectorised scheduler on a generic adjacent pair of its lookup grid with symbolic ratio rho>1",
    "outside": ["IEEE rounding of f+r accumulation", SC.POW_FACTS],
    "stubs": ["(N/2)**(1/Jdes) -> uninterpreted application with facts", "np.logspace/np.searchsorted -> generic adjacent grid pair", "round_half_up -> proved summary"],
    "assumptions": ["admissible configuration", "allowance for b>=bmin: rounding of L to an integer moves fs/r by at most 1/2, i.e. b >= bmin - f/(2 fs); for the vectorised scheduler additionally the factor 1/rho of its lookup grid"],
}
G = [["C03/r*L=fs", "C03/next=f+r", "C03/r>0", "C03/f<nyquist", "C03/f0=bmin*fs/N", "C03/lpsd=ltf*", "C03/searchsorted*"], ["C03/b=f*L/fs", "C03/stored"], ["C03/b>=bmin-allowance"]]


def obligations(tier):
    obs = []
    to = 30 if tier == "quick" else 200
    for sched in ("ltf", "lpsd"):
        split(obs, "%s/step" % sched, "ob_ltf", {"sched": sched, "part": "step"}, G, timeout=to)
        # ... and after an earlier plan in the same process (whatever a scheduler keeps at module level must not leak into the next plan)
        split(obs, "%s/step-after-prior-plan" % sched, "ob_ltf", {"sched": sched, "part": "step", "prior": True}, [G[0] + G[1]], timeout=to, fork=True, max_paths=32)
        obs.append({"name": "%s/tail" % sched, "fn": "ob_ltf_tail", "params": {"sched": sched}, "fork": True, "max_paths": 200, "timeout": to, "weight": 6, "limit": 600})
    split(obs, "vec/step", "ob_vec", {"part": "step"}, G, timeout=to, weight=3)
    split(obs, "vec/step-after-prior-plan", "ob_vec", {"part": "step", "fork_ifs": True, "prior": True}, [G[0] + G[1]], timeout=min(to, 20), weight=4, fork=True, max_paths=48, limit=(600 if tier == "quick" else 1200))
    split(obs, "new/step", "ob_new", {"part": "step"}, G, timeout=to if tier == "thorough" else 20, weight=3)
    whole_plan_obligations(obs, tier, "C03")
    return obs
