"""C09 -- cross-spectral quantities satisfy their defining identities and bounds."""
from . import result as R, kernels as K, C01

PROPERTY = "C09"
META = {
    "bounds": {"quick": "result level: one generic bin, XX,YY>=0 (zero included), |XY|^2<=XX*YY, S2,S12,fs>0, f>=0, n>=1 symbolic; kernel level (9 csd + 9 auto functions): L<=3, K<=2, N=L+2, symbolic data/window/omega: swap symmetry, auto-in-pair, coh=1 for K=1 and y=g*x, Cauchy-Schwarz direct for K=2 at L<=2; kernel->result composition at L=2,K=2; constructor level: the stored record of a channel alone = in a pair, N=3 samples per channel with symbolic finiteness flags, 2 layouts",
               "thorough": "kernel level up to L<=4, K<=3; Cauchy-Schwarz for K=3 through the Lagrange identity (identity and sum-of-squares each decided by the solver)"},
    "outside": ["IEEE rounding (coherence marginally above 1 in binary64 is outside the real-arithmetic claim)"],
    "stubs": C01.META["stubs"],
    "assumptions": ["result-level obligations assume |XY|^2<=XX*YY and XX,YY>=0, which the kernel-level obligations establish for the statistics the kernels return"],
}


def encoded_functions():
    import speckit.analysis as A
    return R.encoded() + K.all_encoded() + [A.SpectrumAnalyzer.__init__]


def _res(W, pos, extra_assume=None):
    b = R.bin_inputs(W, cross=True, pos=pos, psd_cs=True)
    fs = W.real("fs")
    if W.sym:
        W.assume(fs > 0)
    if extra_assume:
        extra_assume(W, b)
    return b, fs, R.mk(W, [b], True, fs)


def ob_result_bounds(W):
    b, fs, r = _res(W, pos=False)
    e = R.el
    coh, Gxx, Gyy, Gxy = e(r.coh), e(r.Gxx), e(r.Gyy), e(r.Gxy)
    W.goal("coh>=0", W.ge(coh, 0))
    W.goal("coh<=1", W.le(coh, 1))
    W.goal("|Gxy|^2<=Gxx*Gyy", W.le(Gxy.real * Gxy.real + Gxy.imag * Gxy.imag, Gxx * Gyy))
    W.goal("GyyCx+GyyRx=Gyy", W.eq(e(r.GyyCx) + e(r.GyyRx), Gyy))
    W.goal("GyyCx=coh*Gyy", W.eq(e(r.GyyCx), coh * Gyy))
    W.goal("GyySx=Gyy*(1-coh)", W.eq(e(r.GyySx), Gyy * (1 - coh)))
    W.goal("GyySx>=0", W.ge(e(r.GyySx), 0))
    W.goal("coh=|XY|^2/(XX*YY)", W.Or(W.eq(b["XX"] * b["YY"], 0), W.eq(coh * b["XX"] * b["YY"], b["XY"].real * b["XY"].real + b["XY"].imag * b["XY"].imag)))
    cc = e(r.ccoh)
    W.goal("|ccoh|^2=coh", W.eq(cc.real * cc.real + cc.imag * cc.imag, coh))
    W.vc_goals("definedness")


def ob_result_zero(W, which):
    """zero / silent channels: guarded divisions give 0, nothing undefined"""
    def zero(W_, b):
        if which in ("x", "both"):
            b["XX"] = W_.num(0)
        if which in ("y", "both"):
            b["YY"] = W_.num(0)
        b["XY"] = (b["XY"] * 0) if W_.sym else 0j
    b, fs, r = _res(W, pos=False, extra_assume=zero)
    e = R.el
    for nm in ("coh", "GyyCx", "Hxy", "ccoh"):
        v = e(getattr(r, nm))
        W.goal("zero-%s/%s=0" % (which, nm), W.eq(v, 0))
    W.goal("zero-%s/GyyRx=Gyy" % which, W.eq(e(r.GyyRx), e(r.Gyy)))
    W.goal("zero-%s/GyySx=Gyy" % which, W.eq(e(r.GyySx), e(r.Gyy)))
    W.vc_goals("definedness")


def ob_result_coh1(W):
    def dep(W_, b):
        if W_.sym:
            W_.assume(b["XX"] > 0); W_.assume(b["YY"] > 0)
            W_.assume(b["XY"].re * b["XY"].re + b["XY"].im * b["XY"].im == b["XX"] * b["YY"])
    b, fs, r = _res(W, pos=True, extra_assume=dep)
    W.goal("coh=1", W.eq(R.el(r.coh), 1))
    W.goal("GyyRx=0", W.eq(R.el(r.GyyRx), 0))
    W.goal("GyySx=0", W.eq(R.el(r.GyySx), 0))


def _data(W, N, L):
    return W.reals("x", N), W.reals("y", N), W.reals("w", L), W.omega("w")


def ob_swap(W, backend, fam, L, starts, order, N):
    x, y, w, om = _data(W, N, L)
    a = K.run(W, backend, fam, "csd", x, y, starts, L, w, om, order)
    b = K.run(W, backend, fam, "csd", y, x, starts, L, w, om, order)
    W.goal("swap/XX<->YY", W.And(W.eq(a[0], b[1]), W.eq(a[1], b[0])))
    W.goal("swap/Re XY", W.eq(a[2], b[2]))
    W.goal("swap/Im XY -> -Im", W.eq(a[3], -b[3]))
    W.goal("swap/M2", W.eq(a[4], b[4]))


def ob_auto_in_pair(W, backend, fam, L, starts, order, N, chunk=None):
    x, y, w, om = _data(W, N, L)
    c = K.run(W, backend, fam, "csd", x, y, starts, L, w, om, order, chunk=chunk)    # chunk: the NumPy fallbacks' chunk loop crossed at small K
    ax = K.run(W, backend, fam, "auto", x, x, starts, L, w, om, order)
    ay = K.run(W, backend, fam, "auto", y, y, starts, L, w, om, order)
    W.goal("pair/Gxx", W.eq(c[0], ax[0]))
    W.goal("pair/Gyy", W.eq(c[1], ay[0]))
    W.goal("auto/MYY=MXX", W.eq(ax[1], ax[0]))
    W.goal("auto/XY=XX", W.And(W.eq(ax[2], ax[0]), W.eq(ax[3], 0)))
    W.goal("XX>=0", W.ge(ax[0], 0))


def ob_coh_one(W, backend, fam, L, starts, order, N, case):
    x = W.reals("x", N)
    w = W.reals("w", L)
    om = W.omega("w")
    if case == "gain":
        g = W.real("g")
        y = x * g
    else:
        y = W.reals("y", N)
    c = K.run(W, backend, fam, "csd", x, y, starts, L, w, om, order)
    W.goal("|XY|^2=XX*YY", W.eq(c[2] * c[2] + c[3] * c[3], c[0] * c[1]))


def ob_cauchy(W, backend, fam, L, starts, order, N, om_pt):
    x = W.reals("x", N); y = W.reals("y", N); w = W.reals("w", L)
    om = C01_omega(W, om_pt)
    c = K.run(W, backend, fam, "csd", x, y, starts, L, w, om, order)
    lhs = c[0] * c[1] - c[2] * c[2] - c[3] * c[3]
    Kn = len(starts)
    if Kn <= 2:
        W.goal("|XY|^2<=XX*YY", W.ge(lhs, 0))
        return
    # Lagrange identity: (sum|X|^2)(sum|Y|^2)-|sum X conj Y|^2 = sum_{j<k} |X_j Y_k - X_k Y_j|^2, X_k,Y_k the reference segment DFTs
    P = K.projector(L, order)
    XY = []
    for s in starts:
        X = K.seg_dft(W, [x[s + n] for n in range(L)], w, om, P)
        Y = K.seg_dft(W, [y[s + n] for n in range(L)], w, om, P)
        XY.append((X, Y))
    sos = 0
    for j in range(Kn):
        for k in range(j + 1, Kn):
            d = XY[j][0] * XY[k][1] - XY[k][0] * XY[j][1]
            sos = sos + d.real * d.real + d.imag * d.imag
    W.goal("lagrange-identity", W.eq(lhs * (Kn * Kn), sos))
    npairs = Kn * (Kn - 1)
    dd = W.reals("d", npairs)
    W.goal("sum of squares>=0", W.ge(sum(dd[i] * dd[i] for i in range(npairs)), 0))


def C01_omega(W, om):
    if om is None:
        return W.omega("w")
    import math, z3
    from fractions import Fraction as F
    from symx.proxy import Omega, SR
    c, s = F(om[0]), F(om[1])
    return Omega(SR(z3.RealVal(str(c))), SR(z3.RealVal(str(s)))) if W.sym else math.atan2(float(s), float(c))


def ob_compose(W, backend, fam, L, starts, order, N):
    """kernel -> SpectrumResult: coherence of the real chain lies in [0,1]"""
    x = W.reals("x", N); y = W.reals("y", N); w = W.reals("w", L)
    om = W.omega("w")
    c = K.run(W, backend, fam, "csd", x, y, starts, L, w, om, order)
    S1 = sum(w[i] for i in range(L)); S2 = sum(w[i] * w[i] for i in range(L))
    if W.sym:
        W.assume(S2 > 0); W.assume(S1 * S1 > 0)
        from symx.proxy import SC
        XY = SC(c[2], c[3])
    else:
        if not (S2 > 0 and S1 * S1 > 0):
            return
        XY = complex(c[2], c[3])
    b = dict(XX=c[0], YY=c[1], XY=XY, S2=S2, S12=S1 * S1, M2=c[4], navg=len(starts), f=0.25)
    r = R.mk(W, [b], True, 1.0)
    # coh in [0,1] for the chain = Cauchy-Schwarz on the kernel output (cauchy/ obligation, polynomial form) + result/bounds;
    # the rational form of the composed query is beyond the solvers (unknown at 20 s), so it is not posed
    W.goal("chain/GyyCx+GyyRx=Gyy", W.eq(R.el(r.GyyCx) + R.el(r.GyyRx), R.el(r.Gyy)))


def ob_record_alone_vs_pair(W, layout, N):
    """the record a channel contributes to the analysis is the same whether it is handed over alone or as part of a pair
    (constructor level: shape normalisation and sanitising, samples carry a symbolic finiteness flag as in C13)"""
    from . import C13
    import speckit.analysis as A
    obj, ch = C13.build(W, layout, N)
    if W.sym:
        from symx.shim import clone_module
        G = clone_module(A, dict(np=C13.C13Np()))
        cls = G["SpectrumAnalyzer"]
        alone = [C13._mk_sym(list(c), "C", "f8") for c in ch]
    else:
        import numpy as rnp
        cls = A.SpectrumAnalyzer
        data = rnp.asarray(obj, dtype=float)
        d2 = data if data.shape[0] == 2 and data.shape[1] != 2 else (data.T if data.shape[1] == 2 and data.shape[0] != 2 else data)
        alone = [rnp.array(d2[0]), rnp.array(d2[1])]
    pair = cls(obj, 2.0, win="hann", olap=0.5)
    singles = [cls(a, 2.0, win="hann", olap=0.5) for a in alone]
    val = (lambda e: C13._fv_as_value(e) if isinstance(e, C13.FV) else e) if W.sym else float
    for c, (st_pair, st_alone) in enumerate(zip([pair.x1, pair.x2], [singles[0].x1, singles[1].x1])):
        for i in range(N):
            W.goal("record of channel %d, sample %d: alone = in pair" % (c, i), W.eq(val(st_pair[i]), val(st_alone[i])))


def ob_dispatch(W, order, backend):
    """a two-channel analysis hands BOTH channels to the cross-spectral kernel of every bin, whatever the data are (the analyzer is built
    by its real constructor on a symbolic record; kernels are recorders) -- the link between the kernel-level identities above and
    the result of an analysis"""
    from . import C05
    return C05.ob_compute(W, [4, 6], [2, 1], order, True, backend, "kaiser")


def obligations(tier):
    obs = [{"name": "result/bounds", "fn": "ob_result_bounds", "params": {}}, {"name": "result/coh1", "fn": "ob_result_coh1", "params": {}}]
    for order, backend in ((0, "numpy"), (-1, "numba"), (1, "cuda")):
        obs.append({"name": "dispatch/o%d/%s" % (order, backend), "fn": "ob_dispatch", "params": {"order": order, "backend": backend}, "weight": 6,
                    "only": ["*/kernel-mode", "*/kernel-family", "*/channel-1", "*/channel-2", "*/XX", "*/YY", "*/XY"]})
    for layout in ("2xN-C", "Nx2-C"):
        obs.append({"name": "record/alone-vs-pair/%s" % layout, "fn": "ob_record_alone_vs_pair", "params": {"layout": layout, "N": 3}, "fork": True, "max_paths": 600, "weight": 10})
    for z in ("x", "y", "both"):
        obs.append({"name": "result/zero-%s" % z, "fn": "ob_result_zero", "params": {"which": z}})
    shapes = [(1, [0]), (2, [1]), (2, [0, 2]), (3, [2, 0])] + ([(3, [0, 1, 2]), (4, [0, 2]), (4, [1])] if tier == "thorough" else [])
    for backend in K.BACKENDS:
        for order in (-1, 0, 1, 2):
            fam = K.family_of(order)
            for L, st in shapes:
                N = L + 2
                tag = "%s/%s/o%d/L%d/s%s" % (backend, fam, order, L, "-".join(map(str, st)))
                p = dict(backend=backend, fam=fam, L=L, starts=st, order=order, N=N)
                heavy = fam != "win_only" and L >= 3 and len(st) >= 2
                if not (heavy and tier == "quick"):
                    obs.append({"name": "swap/" + tag, "fn": "ob_swap", "params": p, "weight": L * len(st)})
                    obs.append({"name": "pair/" + tag, "fn": "ob_auto_in_pair", "params": p, "weight": L * len(st)})
                if backend == "numpy" and L == 2 and len(st) == 1:
                    # three segments in chunks of two (a partial last chunk): the densities inside a pair are still the single-channel ones
                    obs.append({"name": "pair-chunked/%s/%s/o%d/L2/K3" % (backend, fam, order), "fn": "ob_auto_in_pair",
                                "params": dict(backend=backend, fam=fam, L=2, starts=[0, 2, 1], order=order, N=4, chunk=2), "weight": 8})
                if len(st) == 1:
                    obs.append({"name": "coh1-K1/" + tag, "fn": "ob_coh_one", "params": dict(p, case="K1"), "weight": L})
                if not heavy or tier == "thorough":
                    obs.append({"name": "coh1-gain/" + tag, "fn": "ob_coh_one", "params": dict(p, case="gain"), "weight": L * len(st) * 2})
                if len(st) == 2 and L <= 2:
                    obs.append({"name": "cauchy/" + tag, "fn": "ob_cauchy", "params": dict(p, om_pt=None), "weight": 8})
                    obs.append({"name": "compose/" + tag, "fn": "ob_compose", "params": p, "weight": 8})
                if len(st) == 3 and tier == "thorough":
                    obs.append({"name": "cauchy/" + tag, "fn": "ob_cauchy", "params": dict(p, om_pt=["3/5", "4/5"]), "weight": 20})
    return obs
