"""SpectrumResult in both worlds: the real class, or a subclass whose __init__/__getattr__/methods are
re-globalled clones running on proxies."""
import math
from fractions import Fraction as F
import numpy as rnp
import z3

from symx import ctx
from symx.proxy import SR, SC, SB, plain, rv, toreal
from symx.shim import NumpyShim, clone, oarr, SymNd, make_builtins

PI = F(math.pi)
_C = {}


def interp_stub(x, xp, fp, **k):
    """np.interp contract: clamp outside [xp[0], xp[-1]], piecewise linear in between (xp increasing)"""
    from symx.proxy import ite
    xs = rnp.asarray(x, dtype=object)
    scalar = xs.shape == ()
    out = []
    for xv in xs.reshape(-1):
        n = len(xp)
        res = fp[n - 1]
        for i in range(n - 2, -1, -1):
            seg = fp[i] + (fp[i + 1] - fp[i]) * ((xv - xp[i]) / (xp[i + 1] - xp[i]))
            res = ite(xv < xp[i + 1], seg, res)
        res = ite(xv <= xp[0], fp[0], res)
        out.append(res)
    if scalar:
        a = rnp.empty((), dtype=object)
        a[()] = out[0]
        return a.view(SymNd)
    return oarr(out)


class _CtShim:
    @staticmethod
    def mag2db(mag):
        # control.mag2db(mag) = 20*log10(mag); run the real one when it accepts object arrays
        import control as ct
        return ct.mag2db(mag)


def sym_class():
    """SpectrumResult with EVERY method (and every module-level helper it may call) re-created over the shim namespace"""
    if "cls" in _C:
        return _C["cls"]
    import speckit.analysis as A
    from symx.shim import clone_module
    NP = NumpyShim(interp=interp_stub)
    G = clone_module(A, dict(np=NP))
    _C["cls"] = G["SpectrumResult"]
    _C["G"] = G
    return _C["cls"]


def encoded():
    import speckit.analysis as A
    return [A.SpectrumResult.__init__, A.SpectrumResult.__getattr__]


def bin_inputs(W, j="", cross=True, psd_cs=True, pos=True):
    """symbolic per-bin statistics with exactly the facts the kernels establish"""
    XX = W.real("XX" + j)
    YY = W.real("YY" + j) if cross else XX
    S2, S12 = W.real("S2" + j), W.real("S12" + j)
    M2 = W.real("M2" + j)
    n = W.int("n" + j, lo=1)
    fj = W.real("f" + j, lo=0)    # any frequency, DC and Nyquist included
    rj = W.real("r" + j); Lj = W.int("L" + j, lo=1); bj = W.real("b" + j)    # plan fields stored with the result: arbitrary here
    if cross:
        xr, xi = W.real("XYr" + j), W.real("XYi" + j)
    if W.sym:
        for v in ([XX, YY] if cross else [XX]):
            W.assume(v > 0 if pos else v >= 0)
        W.assume(S2 > 0); W.assume(S12 > 0); W.assume(M2 >= 0)
        if cross and psd_cs:
            W.assume(xr * xr + xi * xi <= XX * YY)
        XY = SC(xr, xi) if cross else SC(XX, SR(z3.RealVal(0)))
    else:
        XY = complex(xr, xi) if cross else complex(XX, 0.0)
    if W.sym:
        W.assume(rj > 0)
    return dict(XX=XX, YY=YY, XY=XY, S2=S2, S12=S12, M2=M2, navg=n, f=fj, r=rj, L=Lj, b=bj)


_CFG = {}


def result_config(W):
    """the configuration dictionary a result carries: the one a real SpectrumAnalyzer hands over (all its keys, concrete values of a
    default analysis) with the detrending order symbolic in {-1, 0, 1, 2} -- so that a result-level computation that consults the
    configuration is followed on every branch"""
    if "base" not in _CFG:
        import speckit.analysis as A
        try:
            a = A.SpectrumAnalyzer(rnp.arange(16.0), 2.0)
            _CFG["base"] = {k: v for k, v in a.config.items()}
        except Exception:
            _CFG["base"] = {}
    cfg = dict(_CFG["base"])
    o = W.int("cfg_order", lo=-1, hi=2)
    cfg["order"] = o if W.sym else int(o)
    return cfg


def mk(W, bins, cross, fs, f=None, extra=None):
    """a result object with len(bins) frequency bins"""
    nf = len(bins)
    config = result_config(W)
    fvals = f if f is not None else [b["f"] if "f" in b else float(i + 1) for i, b in enumerate(bins)]
    if W.sym:
        d = {k: oarr([b[k] for b in bins]) for k in ("XX", "YY", "XY", "S2", "S12", "M2", "navg")}
        for k in ("r", "L", "b"):
            if all(k in b for b in bins):
                d[k] = oarr([b[k] for b in bins])
        if all("navg" in b for b in bins):
            d["K"] = oarr([b["navg"] for b in bins])
        d["f"] = oarr(fvals) if any(isinstance(v, SR) for v in fvals) else rnp.array(fvals, dtype=float)
        if extra:
            d.update(extra)
        return sym_class()(d, config, cross, fs)
    import speckit.analysis as A
    d = {"XX": rnp.array([b["XX"] for b in bins], dtype=float), "YY": rnp.array([b["YY"] for b in bins], dtype=float),
         "XY": rnp.array([b["XY"] for b in bins], dtype=complex), "S2": rnp.array([b["S2"] for b in bins], dtype=float),
         "S12": rnp.array([b["S12"] for b in bins], dtype=float), "M2": rnp.array([b["M2"] for b in bins], dtype=float),
         "navg": rnp.array([b["navg"] for b in bins], dtype=rnp.int64), "f": rnp.array(fvals, dtype=float)}
    if all("r" in b for b in bins):
        d.update(r=rnp.array([b["r"] for b in bins], dtype=float), L=rnp.array([b["L"] for b in bins], dtype=rnp.int64), b=rnp.array([b["b"] for b in bins], dtype=float),
                 K=rnp.array([b["navg"] for b in bins], dtype=rnp.int64))
    if extra:
        d.update(extra)
    return A.SpectrumResult(d, config, cross, fs)


def el(v, i=0):
    """i-th element of an attribute value (None stays None)"""
    if v is None:
        return None
    e = v[i]
    return plain(e) if not isinstance(e, (float, complex, rnp.floating, rnp.complexfloating)) else e


def add_fun_facts(W):
    """instance axioms for the uninterpreted functions met so far (called after the attributes were evaluated)"""
    if not W.sym:
        return
    run = W.run
    pi = z3.RealVal(str(PI))
    for (u, r) in [a for a in run.uapps.get("asin", [])]:
        run.side.append(z3.Implies(z3.And(u >= 0, u <= 1), z3.And(r >= u, r <= pi / 2 * u)))
        run.side.append(z3.Implies(u == 0, r == 0))
    for (im, re, r) in run.uapps.get("atan2", []):
        # range and quadrant of the principal value
        run.side.append(z3.And(r > -pi, r <= pi))
        run.side.append(z3.Implies(im > 0, r > 0)); run.side.append(z3.Implies(im < 0, r < 0))
        run.side.append(z3.Implies(z3.And(re < 0, im > 0), r > pi / 2)); run.side.append(z3.Implies(z3.And(re < 0, im < 0), r < -pi / 2))
        run.side.append(z3.Implies(re > 0, z3.And(r > -pi / 2, r < pi / 2)))
        run.side.append(z3.Implies(z3.And(im == 0, re > 0), r == 0)); run.side.append(z3.Implies(z3.And(im == 0, re < 0), r == pi))
    for (u, r) in run.uapps.get("log10", []):
        run.side.append(z3.Implies(u == 1, r == 0))
