"""C08 -- segment detrending removes polynomial trends and nothing else."""
from . import kernels as K, C01

PROPERTY = "C08"
META = {
    "bounds": {"quick": "call history: the same obligations after a basis of the other order was built for the same L (L=3,4); 12 detrending functions (3 backends x auto/csd x detrend0/poly) + 6 window-only ones; L in 1..5 (L<=p included), K<=2, N=L+2; symbolic data, window, omega and trend coefficients (per channel, on absolute sample indices)",
               "thorough": "L in 1..8, K<=3; call-history variant for L=3..6"},
    "outside": ["'up to rounding relative to the size of the added trend' (reals are exact here; the double-precision Q is cross-checked against the exact basis to 1e-12 concretely)"],
    "stubs": C01.META["stubs"],
    "assumptions": [],
}


def encoded_functions():
    return K.all_encoded()


def _poly(W, name, deg, N):
    a = [W.real("%s%d" % (name, k)) for k in range(deg + 1)]
    return a, [sum(a[k] * (n ** k) for k in range(deg + 1)) for n in range(N)]


def ob_invariance(W, backend, fam, mode, L, starts, order, N, prior_q=None):
    """adding a polynomial of degree <= order to either channel leaves all five statistics unchanged"""
    import numpy as rnp
    x = W.reals("x", N)
    y = W.reals("y", N) if mode == "csd" else x
    w = W.reals("w", L)
    om = W.omega("w")
    _, tx = _poly(W, "a", order, N)
    x2 = x + _arr(W, tx)
    if mode == "csd":
        _, ty = _poly(W, "b", order, N)
        y2 = y + _arr(W, ty)
    else:
        y2 = x2
    base = K.run(W, backend, fam, mode, x, y, starts, L, w, om, order, prior_q=prior_q)
    got = K.run(W, backend, fam, mode, x2, y2, starts, L, w, om, order)
    for nm, g, r in zip(K.STAT_NAMES, got, base):
        W.goal("invariant/" + nm, W.eq(g, r))


def _arr(W, vals):
    import numpy as rnp
    if W.sym:
        from symx.shim import oarr
        return oarr(vals)
    return rnp.array(vals, dtype=float)


def ob_sensitivity(W, backend, fam, mode, L, starts, order, N, channel):
    """a trend of degree order+1 in one channel does change the estimate (existential clause)"""
    x = W.reals("x", N)
    y = W.reals("y", N) if mode == "csd" else x
    w = W.reals("w", L)
    om = W.omega("w")
    c = W.real("c")
    t = _arr(W, [c * (n ** (order + 1)) for n in range(N)])
    if mode == "csd" and channel == "y":
        x2, y2 = x, y + t
    else:
        x2 = x + t
        y2 = y if mode == "csd" else x2
    base = K.run(W, backend, fam, mode, x, y, starts, L, w, om, order)
    got = K.run(W, backend, fam, mode, x2, y2, starts, L, w, om, order)
    idx = 1 if (mode == "csd" and channel == "y") else 0
    W.witness("changes/%s" % K.STAT_NAMES[idx], W.ne(got[idx], base[idx]))


def ob_q_numeric(W, L, order):
    """the double-precision basis spans the same space as the exact one (the 'up to rounding' part)"""
    import numpy as rnp, speckit.core as core
    Q = core._build_Q(L, order)
    P = rnp.array([[float(v) for v in row] for row in K.projector(L, order)])
    err = float(rnp.max(rnp.abs(Q @ Q.T - P)))
    W.goal("QQ^T=exact projector to 1e-12", err <= 1e-12, err=err)


def obligations(tier):
    obs = []
    Lmax = 5 if tier == "quick" else 8
    for backend in K.BACKENDS:
        for order in (0, 1, 2):
            fam = K.family_of(order)
            for mode in ("auto", "csd"):
                for L in range(1, Lmax + 1):
                    N = L + 2
                    svs = [[1], [2, 0]] if tier == "quick" else [[1], [2, 0], [0, 1, 2]]
                    for st in svs:
                        if tier == "quick" and L == 5 and len(st) == 2 and mode == "csd":
                            continue
                        if tier == "thorough" and L > 5 and len(st) == 3:
                            continue
                        tag = "%s/%s_%s/o%d/L%d/s%s" % (backend, fam, mode, order, L, "-".join(map(str, st)))
                        p = dict(backend=backend, fam=fam, mode=mode, L=L, starts=st, order=order, N=N)
                        obs.append({"name": "inv/" + tag, "fn": "ob_invariance", "params": p, "weight": L * L * len(st)})
                    if order in (1, 2) and L in ((3, 4) if tier == "quick" else (3, 4, 5, 6)):
                        # call history: a basis of the OTHER order was built for the same segment length before (process-wide state must not leak)
                        p = dict(backend=backend, fam=fam, mode=mode, L=L, starts=[1], order=order, N=N, prior_q=3 - order)
                        obs.append({"name": "inv-after-other-order/%s/%s_%s/o%d/L%d" % (backend, fam, mode, order, L), "fn": "ob_invariance", "params": p, "weight": L * L})
                    if L >= order + 3 and L <= 5:
                        for ch in (("x", "y") if mode == "csd" else ("x",)):
                            obs.append({"name": "sens/%s/%s_%s/o%d/L%d/%s" % (backend, fam, mode, order, L, ch), "fn": "ob_sensitivity",
                                        "params": dict(backend=backend, fam=fam, mode=mode, L=L, starts=[0], order=order, N=L, channel=ch), "weight": L})
        # order -1: nothing is removed -- a constant offset changes the raw-segment estimate
        for mode in ("auto", "csd"):
            for ch in (("x", "y") if mode == "csd" else ("x",)):
                obs.append({"name": "sens/%s/win_only_%s/o-1/L3/%s" % (backend, mode, ch), "fn": "ob_sensitivity",
                            "params": dict(backend=backend, fam="win_only", mode=mode, L=3, starts=[0], order=-1, N=3, channel=ch)})
    for order in (1, 2):
        for L in ((1, 2, 3, 4, 8, 33) if tier == "quick" else (1, 2, 3, 4, 5, 8, 16, 33, 100, 257)):
            obs.append({"name": "qnum/o%d/L%d" % (order, L), "fn": "ob_q_numeric", "params": {"L": L, "order": order}, "vacuity": False})
    return obs
