"""C01 -- per-bin statistics equal the windowed-DFT definition on every backend."""
import itertools
from fractions import Fraction as F
from . import kernels as K

PROPERTY = "C01"
PYTH = [(F(3, 5), F(4, 5)), (F(5, 13), F(12, 13)), (F(-3, 5), F(4, 5)), (F(0), F(1)), (F(-1), F(0))]

META = {
    "bounds": {
        "quick": "18 functions; L in 1..4, K in 1..2, N=L+2, every start vector in {0..N-L}^K (repeated/unsorted included) for win_only at L<=3 and a covering subset otherwise; orders -1,0,1,2; omega symbolic (c,s with c^2+s^2=1) for MXX,MYY,mu_r,mu_i and for M2 up to L=3,K=2; M2 beyond that at fixed rational points of the unit circle",
        "thorough": "as quick with L<=8 (first-order statistics, symbolic omega), K<=3; M2 at 5 rational unit-circle points up to L=8,K=3",
    },
    "outside": ["IEEE rounding budget of the recurrence (reals modelled exactly)", "numba/LLVM and PTX code generation (source-level semantics of py_func are encoded; counterexamples are replayed on the compiled code)", "shapes beyond the stated L,K"],
    "stubs": ["np.linalg.qr -> exact Gram-Schmidt with formal normalisation constants", "numba.cuda -> one-thread-per-index launcher, identity transfers (THREADS_PER_BLOCK overridden to 4)", "_prange -> range"],
    "assumptions": ["window real, otherwise arbitrary (no symmetry or positivity assumed)", "starts within [0, N-L]"],
}


def encoded_functions():
    return K.all_encoded()


def ob_kernel(W, backend, fam, mode, L, starts, order, N, om, stats):
    x = W.reals("x", N)
    y = W.reals("y", N) if mode == "csd" else x
    w = W.reals("w", L)
    if om is None:
        omega = W.omega("w")
    else:
        from symx.proxy import Omega, SR
        import z3, math
        c, s = F(om[0]), F(om[1])
        omega = Omega(SR(z3.RealVal(str(c))), SR(z3.RealVal(str(s)))) if W.sym else math.atan2(float(s), float(c))
    got = K.run(W, backend, fam, mode, x, y, starts, L, w, omega, order)
    ref = K.reference(W, x, y, starts, L, w, omega, order, mode)
    for nm, g, r in zip(K.STAT_NAMES, got, ref):
        if nm in stats:
            W.goal(nm, W.eq(g, r))


def ob_kernel_many(W, backend, fam, mode, L, start_list, order, N, stats, chunk=None):
    """the same obligation for a list of start vectors (one symbolic record, window, angle)"""
    x = W.reals("x", N)
    y = W.reals("y", N) if mode == "csd" else x
    w = W.reals("w", L)
    omega = W.omega("w")
    for sv in start_list:
        got = K.run(W, backend, fam, mode, x, y, list(sv), L, w, omega, order, chunk=chunk)
        ref = K.reference(W, x, y, list(sv), L, w, omega, order, mode)
        tag = "s" + "-".join(map(str, sv))
        for nm, g, r in zip(K.STAT_NAMES, got, ref):
            if nm in stats:
                W.goal("%s/%s" % (tag, nm), W.eq(g, r))


def ob_reuse(W, backend, fam, mode, L, starts, order, N, first_order=None):
    """call history: a second call with the SAME record buffers overwritten in place and a NEW window of the same length
    must give the statistics of the new contents (nothing cached from the first call may be reused)"""
    import numpy as rnp
    x = W.reals("x", N); y = W.reals("y", N) if mode == "csd" else x
    w = W.reals("w", L); w2 = W.reals("v", L)
    x2 = W.reals("p", N); y2 = W.reals("q", N) if mode == "csd" else x2
    omega = W.omega("w")
    K.run(W, backend, fam, mode, x, y, starts, L, w, omega, order if first_order is None else first_order)   # first_order: the earlier call detrended with another order
    x[:] = x2
    if mode == "csd":
        y[:] = y2
    got = K.run(W, backend, fam, mode, x, y, starts, L, w2, omega, order)
    ref = K.reference(W, x2, y2, starts, L, w2, omega, order, mode)
    for nm, g, r in zip(K.STAT_NAMES[:4], got, ref):
        W.goal("second-call/" + nm, W.eq(g, r))


def _start_vectors(N, L, Kn, full):
    rng = range(0, N - L + 1)
    vs = list(itertools.product(rng, repeat=Kn))
    if full:
        return vs
    # covering subset: sorted distinct, repeated, unsorted, extremes
    pick = []
    for v in vs:
        if v == tuple(sorted(v)) and len(set(v)) == len(v):
            pick.append(v)
    if Kn >= 2:
        pick += [tuple([N - L] * Kn), tuple(reversed(range(Kn)))[:Kn] if N - L + 1 >= Kn else tuple([0] * Kn)]
    return sorted(set(pick))[:4] + ([pick[-1]] if pick else [])


def obligations(tier):
    obs = []
    first = ["MXX", "MYY", "mu_r", "mu_i"]
    Lmax = 4 if tier == "quick" else 8
    Kmax = 2 if tier == "quick" else 3
    for backend in K.BACKENDS:
        for order in (-1, 0, 1, 2):
            fam = K.family_of(order)
            for mode in ("auto", "csd"):
                for L in range(1, Lmax + 1):
                    N = L + 2
                    for Kn in range(1, Kmax + 1):
                        full = (fam == "win_only" and L <= 3 and mode == "csd" and tier == "quick") or (tier == "thorough" and L <= 4 and Kn <= 2)
                        svs = _start_vectors(N, L, Kn, full)
                        if tier == "quick" and not full:
                            svs = svs[-2:] if L >= 3 else svs[:3]
                        if tier == "thorough" and L > 4:
                            svs = svs[-2:]
                        for sv in svs:
                            sv = list(sv)
                            m2sym = Kn == 2 and L <= (3 if tier == "quick" else 4) and (L <= 2 or mode == "auto" or fam == "win_only")
                            stats = first + (["M2"] if (Kn == 1 or m2sym) else [])
                            if tier == "thorough" and L > 6 and fam == "poly":
                                stats = [s for s in stats if s != "M2"]
                            nm = "%s/%s_%s/o%d/L%d/s%s/sym" % (backend, fam, mode, order, L, "-".join(map(str, sv)))
                            obs.append({"name": nm, "fn": "ob_kernel", "weight": L * L * Kn,
                                        "params": dict(backend=backend, fam=fam, mode=mode, L=L, starts=sv, order=order, N=N, om=None, stats=stats)})
                            if Kn >= 2 and not m2sym:
                                pts = PYTH[:2] if tier == "quick" else PYTH
                                if tier == "quick" and L == 4 and fam == "poly" and mode == "csd":
                                    pts = PYTH[:1]
                                for pi, pt in enumerate(pts):
                                    obs.append({"name": nm[:-3] + "pt%d" % pi, "fn": "ob_kernel", "weight": L * L * Kn * 2,
                                                "params": dict(backend=backend, fam=fam, mode=mode, L=L, starts=sv, order=order, N=N, om=[str(pt[0]), str(pt[1])], stats=["M2"])})
    # K = 3 and 4: every start vector over {0..3} (repeated, unsorted, irregular with regular end points ...) at L=1,2, chunk loop of
    # the NumPy fallbacks exercised with _chunk=2; first-order statistics
    allv = {k: list(itertools.product(range(4), repeat=k)) for k in (3, 4)}
    for backend in K.BACKENDS:
        for order in (-1, 0, 1, 2):
            fam = K.family_of(order)
            for mode in ("auto", "csd"):
                for L in ((1, 2) if (tier == "thorough" or backend == "numpy") else (1,)):
                    if mode == "auto" and L == 1 and fam != "win_only":
                        continue
                    for Kn in (3, 4):
                        vs = allv[Kn]
                        if backend != "numpy" and tier == "quick":
                            vs = vs[::7]
                        for chunk in ((None, 2, 3) if backend == "numpy" else (None,)):
                            for ci in range(0, len(vs), 32):
                                obs.append({"name": "%s/%s_%s/o%d/L%d/K%d-all/chunk%s/%d" % (backend, fam, mode, order, L, Kn, chunk, ci // 32), "fn": "ob_kernel_many", "weight": 6,
                                            "params": dict(backend=backend, fam=fam, mode=mode, L=L, start_list=[list(v) for v in vs[ci:ci + 32]], order=order, N=L + 3, stats=first, chunk=chunk)})
                            if (chunk is not None and Kn == 3) or (chunk == 2 and Kn == 4):
                                # the scatter statistic across chunk boundaries (K=3 split 2+1, K=4 split 2+2)
                                sub = (vs if L == 1 else vs[::5]) if Kn == 3 else (vs[::3] if L == 1 else vs[::29])
                                for ci in range(0, len(sub), 16):
                                    obs.append({"name": "%s/%s_%s/o%d/L%d/K%d-M2/chunk%s/%d" % (backend, fam, mode, order, L, Kn, chunk, ci // 16), "fn": "ob_kernel_many", "weight": 12,
                                                "params": dict(backend=backend, fam=fam, mode=mode, L=L, start_list=[list(v) for v in sub[ci:ci + 16]], order=order, N=L + 3, stats=["M2"], chunk=chunk)})
                obs.append({"name": "%s/%s_%s/o%d/reuse" % (backend, fam, mode, order), "fn": "ob_reuse", "weight": 3,
                            "params": dict(backend=backend, fam=fam, mode=mode, L=3, starts=[1, 0], order=order, N=5)})
                if fam == "poly":
                    obs.append({"name": "%s/%s_%s/o%d/reuse-after-other-order" % (backend, fam, mode, order), "fn": "ob_reuse", "weight": 4,
                                "params": dict(backend=backend, fam=fam, mode=mode, L=4, starts=[1, 0], order=order, N=6, first_order=3 - order)})
    seen, out = set(), []
    for o in obs:
        if o['name'] not in seen:
            seen.add(o['name']); out.append(o)
    return out
