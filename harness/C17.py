"""C17 -- noise generators are seed-reproducible continuous streams."""
import itertools
import numpy as rnp
import z3

from symx import ctx
from symx.proxy import SR
from symx.shim import NumpyShim, clone, clone_module, oarr, SymNd

PROPERTY = "C17"
META = {
    "bounds": {"quick": "cascade: <=3 first-order sections with symbolic coefficients and states, <=6 symbolic samples, every split into <=3 blocks incl. empty and single-sample blocks; generators (white, red, alpha, pink): request sequences of total length <=6 in <=3 blocks (sizes 0 and 1 included), symbolic random stream; get_sample runs with the buffer size overridden to 3; constructor with and without the settling call",
               "thorough": "<=8 samples, <=4 blocks"},
    "outside": ["numpy's Generator being a stream (normal(size=a) followed by normal(size=b) equals normal(size=a+b)): stub contract, spot-validated concretely on every run", "values of the filter coefficients (C18)"],
    "stubs": ["np.random.default_rng(seed) -> stream u(seed,k) of fresh symbols with a cursor; unseeded -> a stream of its own", "scipy.signal.lfilter -> documented transposed direct-form-II recurrence for n>=1, ARBITRARY final state for an empty input (observed library behaviour)", "lfilter_zi -> arbitrary state", "_DEFAULT_BUFFER_SIZE -> 3"],
    "assumptions": ["module-level block/buffer-size constants of speckit.noise (integers in [1024, 2^31): _DEFAULT_BUFFER_SIZE and any the code adds) have the value 3 in the symbolic run AND in the replay, so that the code's own chunk boundaries are crossed by the short requests a run can cover; a violation is therefore a violation of the code at that block size"],
}


def encoded_functions():
    import speckit.noise as Nz
    return [Nz._numba_lfilter_cascade, Nz.white_noise.get_series, Nz.white_noise.get_sample, Nz.red_noise.__init__, Nz.red_noise.get_series, Nz.alpha_noise.__init__,
            Nz.alpha_noise.get_series, Nz._base_colored_noise.get_sample, Nz._base_colored_noise._settle_filter_state]


# ----------------------------------------------------------------------------- environment
class SymRng:
    _anon = [0]

    def __init__(self, seed=None):
        if seed is None:
            SymRng._anon[0] += 1
            self.tag = "anon%d" % SymRng._anon[0]
        else:
            self.tag = "seed%s" % seed
        self.k = 0

    class _BitGen:
        """rng.bit_generator.state: saving and restoring the state = saving and restoring the cursor of the stream"""
        def __init__(self, rng):
            self._rng = rng

        @property
        def state(self):
            return {"bit_generator": "SymStream", "state": {"tag": self._rng.tag, "k": self._rng.k}}

        @state.setter
        def state(self, st):
            self._rng.tag, self._rng.k = st["state"]["tag"], st["state"]["k"]

    @property
    def bit_generator(self):
        return SymRng._BitGen(self)

    def _draw(self, n):
        out = [SR(z3.Real("u_%s_%d" % (self.tag, self.k + i))) for i in range(n)]
        self.k += n
        return out

    def normal(self, loc=0.0, scale=1.0, size=None):
        if size is None:
            return self._draw(1)[0] * scale + loc
        n = int(size)
        return oarr([u * scale + loc for u in self._draw(n)])

    def standard_normal(self, size=None, dtype=None, out=None):
        # Generator.normal(loc, scale, n) = loc + scale * standard_normal(n) on the same stream (checked on the real library by contract/library)
        if out is not None:
            flat = self._draw(int(out.size))
            for i, idx in enumerate(rnp.ndindex(out.shape)):
                out[idx] = flat[i]
            return out
        return self.normal(0.0, 1.0, size)

    def random(self, size=None):
        if size is None:
            return self._draw(1)[0]
        return oarr(self._draw(int(size)))


class _RandomNS:
    default_rng = staticmethod(lambda seed=None: SymRng(seed))


def lfilter_stub(b, a, x, zi=None, **k):
    """scipy.signal.lfilter for a first-order section, transposed direct form II (documented):
    y[n] = b0*x[n] + z[n-1];  z[n] = b1*x[n] - a1*y[n]   (a0 = 1).  Empty input: the returned state is unspecified."""
    b = list(b); a = list(a)
    if len(a) != 2 or len(b) > 2 or zi is None:
        raise NotImplementedError("lfilter stub: only first-order sections with zi")
    b0 = b[0]; b1 = b[1] if len(b) > 1 else 0
    n = len(x)
    if n == 0:
        zf = oarr([SR(ctx.fresh("lfilter_zf_empty"))])
        return oarr([]), zf
    z = zi[0]
    ys = []
    for j in range(n):
        y = b0 * x[j] + z
        z = b1 * x[j] - a[1] * y
        ys.append(y)
    return oarr(ys), oarr([z])


class _SignalNS:
    lfilter = staticmethod(lfilter_stub)

    @staticmethod
    def lfilter_zi(b, a):
        # a deterministic function of the coefficients (value irrelevant here): same symbol for the same arguments
        import hashlib
        key = hashlib.sha1(repr((list(map(float, b)), list(map(float, a)))).encode()).hexdigest()[:10]
        return oarr([SR(z3.Real("lfilter_zi_%s" % key))])


_G = {}


SMALL = 3


def size_constants():
    """module-level integer constants of speckit.noise that are block/buffer sizes (1024 <= value < 2**31): the symbolic run and
    the replay both use the value 3 for them, so that the code's own chunk boundaries fall inside the few samples a run can cover"""
    import speckit.noise as Nz
    return sorted(k for k, v in vars(Nz).items() if isinstance(v, int) and not isinstance(v, bool) and 1024 <= v < 2 ** 31)


def sym_noise():
    import speckit.noise as Nz
    NP = NumpyShim(random=_RandomNS)
    over = dict(np=NP, signal=_SignalNS, lfilter=lfilter_stub)
    over.update({k: SMALL for k in size_constants()})
    G = clone_module(Nz, over)
    return G


def mk_gen(W, G, kind, seed, init_filter=False):
    import speckit.noise as Nz
    ns = G if W.sym else Nz.__dict__
    if kind == "white":
        return ns["white_noise"](8.0, psd=0.5, seed=seed)
    if kind == "red":
        return ns["red_noise"](4.0, 1.0, init_filter=init_filter, seed=seed)
    if kind == "alpha":
        return ns["alpha_noise"](8.0, 0.5, 2.0, 1.5, init_filter=init_filter, seed=seed)
    if kind == "pink":
        return ns["pink_noise"](8.0, 0.5, 2.0, init_filter=init_filter, seed=seed)
    raise ValueError(kind)


def _eq_arrays(W, a, b):
    if len(a) != len(b):
        return False
    if len(a) == 0:
        return True
    return W.And(*[W.eq(a[i], b[i]) for i in range(len(a))])


def _cat(parts):
    out = []
    for p in parts:
        out += list(p)
    return out


# ----------------------------------------------------------------------------- obligations
def ob_cascade(W, nsec, blocks):
    """filter state is carried exactly: chained calls == one call, and the section is the textbook first-order recursion"""
    import speckit.noise as Nz
    n = sum(blocks)
    x = W.reals("x", n)
    a0 = [W.real("a0_%d" % i) for i in range(nsec)]; a1 = [W.real("a1_%d" % i) for i in range(nsec)]
    b1 = [W.real("b1_%d" % i) for i in range(nsec)]; z0 = [W.real("z_%d" % i) for i in range(nsec)]
    if W.sym:
        f = clone_module(Nz, dict(np=NumpyShim()))["_numba_lfilter_cascade"]
        A = lambda: rnp.array([[a0[i], a1[i]] for i in range(nsec)], dtype=object).view(SymNd)
        B = lambda: rnp.array([[1.0, b1[i]] for i in range(nsec)], dtype=object).view(SymNd)
        Z = lambda: rnp.array([[z0[i]] for i in range(nsec)], dtype=object).view(SymNd)
        X = lambda lo, hi: oarr([x[i] for i in range(lo, hi)])
    else:
        f = Nz._numba_lfilter_cascade
        A = lambda: rnp.array([[a0[i], a1[i]] for i in range(nsec)], dtype=float)
        B = lambda: rnp.array([[1.0, b1[i]] for i in range(nsec)], dtype=float)
        Z = lambda: rnp.array([[z0[i]] for i in range(nsec)], dtype=float)
        X = lambda lo, hi: rnp.array([x[i] for i in range(lo, hi)], dtype=float)
    y_all, z_all = f(X(0, n), A(), B(), Z())
    z = Z()
    ys = []
    pos = 0
    for bl in blocks:
        y, z = f(X(pos, pos + bl), A(), B(), z)
        ys.append(y)
        pos += bl
    W.goal("chained=single/outputs", _eq_arrays(W, _cat(ys), list(y_all)))
    W.goal("chained=single/state", W.And(*[W.eq(z[i][0], z_all[i][0]) for i in range(nsec)]))
    # direct-form reference cascade: v_0 = x; v_{i+1}[j] = a0 v_i[j] + a1 v_i[j-1] - b1 v_{i+1}[j-1] (j>=1), v_{i+1}[0] = a0 v_i[0] + z_i
    v = [x[j] for j in range(n)]
    for i in range(nsec):
        w = []
        for j in range(n):
            w.append(a0[i] * v[j] + (z0[i] if j == 0 else a1[i] * v[j - 1] - b1[i] * w[j - 1]))
        v = w
    W.goal("direct-form reference", _eq_arrays(W, list(y_all), v))
    W.goal("input-not-modified", True if n == 0 else W.eq(X(0, n)[0], x[0]))


class _small_buffer:
    """replay with the same small block/buffer sizes as the symbolic run (module constants, see size_constants)"""
    def __init__(self, W):
        self.W = W

    def __enter__(self):
        if not self.W.sym:
            import speckit.noise as Nz
            self.old = {k: getattr(Nz, k) for k in size_constants()}
            for k in self.old:
                setattr(Nz, k, SMALL)

    def __exit__(self, *a):
        if not self.W.sym:
            import speckit.noise as Nz
            for k, v in self.old.items():
                setattr(Nz, k, v)


def ob_stream(W, kind, blocks, init_filter):
    """concatenation of block requests == one request of the total length, for twins built with the same seed"""
    with _small_buffer(W):
        return _ob_stream(W, kind, blocks, init_filter)


def _ob_stream(W, kind, blocks, init_filter):
    G = sym_noise() if W.sym else None
    g1 = mk_gen(W, G, kind, 11, init_filter)
    g2 = mk_gen(W, G, kind, 11, init_filter)
    total = sum(blocks)
    parts = [g1.get_series(b) for b in blocks]
    for b, p in zip(blocks, parts):
        W.goal("block-length[%d]" % b, len(p) == b)
    whole = g2.get_series(total)
    W.goal("chunked=single", _eq_arrays(W, _cat(parts), list(whole)))
    # and the stream continues identically afterwards
    t1, t2 = g1.get_series(2), g2.get_series(2)
    W.goal("continues-identically", _eq_arrays(W, list(t1), list(t2)))
    # a third instance with the same seed, built AFTER the first two have been used, starts the same stream again
    g3 = mk_gen(W, G, kind, 11, init_filter)
    n3 = min(total, 3)
    if n3:
        W.goal("later same-seed instance reproduces the stream", _eq_arrays(W, list(g3.get_series(n3)), list(whole)[:n3]))


def ob_seed(W, kind):
    with _small_buffer(W):
        return _ob_seed(W, kind)


def _ob_seed(W, kind):
    G = sym_noise() if W.sym else None
    a, b = mk_gen(W, G, kind, 5), mk_gen(W, G, kind, 5)
    c = mk_gen(W, G, kind, 6)
    d = mk_gen(W, G, kind, None)
    sa, sb, sc, sd = a.get_series(4), b.get_series(4), c.get_series(4), d.get_series(4)
    W.goal("same-seed-same-samples", _eq_arrays(W, list(sa), list(sb)))
    if W.sym:
        W.witness("different-seed-differs", W.Not(_eq_arrays(W, list(sa), list(sc))))
        W.witness("unseeded-differs", W.Not(_eq_arrays(W, list(sa), list(sd))))
    else:
        W.goal("different-seed-differs", not rnp.allclose(sa, sc))
        W.goal("unseeded-differs", not rnp.allclose(sa, sd))


def ob_get_sample(W, kind, m):
    """m single samples == the first m samples of the stream (buffer refills are block requests of the stream)"""
    G = sym_noise() if W.sym else None
    with _small_buffer(W):
        g1, g2 = mk_gen(W, G, kind, 3), mk_gen(W, G, kind, 3)
        singles = [g1.get_sample() for _ in range(m)]
        nblk = -(-m // 3) * 3
        whole = g2.get_series(nblk)
        W.goal("get_sample-run=stream-prefix", _eq_arrays(W, singles, list(whole)[:m]))


def ob_get_sample_interleaved(W, kind, other, pattern):
    """two live generators consumed through get_sample in an interleaved pattern ('a' = the generator under test, 'b' = the other
    one: another kind/seed, or a same-seed twin that is NOT read in lock-step): each still delivers its own stream"""
    G = sym_noise() if W.sym else None
    with _small_buffer(W):
        ga = mk_gen(W, G, kind, 3)
        gb = mk_gen(W, G, other, 3 if other == kind else 4)
        ref_a, ref_b = mk_gen(W, G, kind, 3), mk_gen(W, G, other, 3 if other == kind else 4)
        got = {"a": [], "b": []}
        for ch in pattern:
            got[ch].append((ga if ch == "a" else gb).get_sample())
        for ch, ref in (("a", ref_a), ("b", ref_b)):
            m = len(got[ch])
            if m:
                whole = ref.get_series(-(-m // 3) * 3)
                W.goal("interleaved get_sample: generator %s delivers its own stream" % ch, _eq_arrays(W, got[ch], list(whole)[:m]))


def ob_rng_contract(W):
    """the stub's contract, checked on the real library at the boundary sizes"""
    ok = True
    for splits in ([0, 3], [1, 1, 2], [4, 0, 1], [2, 2]):
        r1, r2 = rnp.random.default_rng(9), rnp.random.default_rng(9)
        a = rnp.concatenate([r1.normal(0.0, 2.0, size=s) for s in splits]); b = r2.normal(0.0, 2.0, size=sum(splits))
        ok = ok and rnp.array_equal(a, b)
    r1, r2 = rnp.random.default_rng(9), rnp.random.default_rng(9)
    buf = rnp.empty(3)
    r2.standard_normal(out=buf)
    ok = ok and bool(rnp.allclose(r1.normal(0.5, 2.0, size=3), 0.5 + 2.0 * buf, rtol=1e-15, atol=0)) and bool(rnp.array_equal(r1.normal(0.0, 1.0, size=2), r2.standard_normal(2)))
    W.goal("Generator.normal is a stream (real numpy)", ok)
    from scipy import signal
    y, zf = signal.lfilter([0.5], [1.0, -0.25], rnp.array([1.0, 2.0, 3.0]), zi=rnp.array([0.75]))
    ys, zs = lfilter_stub([0.5], [1.0, -0.25], [1.0, 2.0, 3.0], zi=[0.75]) if False else (None, None)
    z = 0.75; ref = []
    for xv in (1.0, 2.0, 3.0):
        yv = 0.5 * xv + z; z = 0.0 * xv - (-0.25) * yv; ref.append(yv)
    W.goal("lfilter recurrence (real scipy)", bool(rnp.allclose(y, ref) and rnp.allclose(zf, [z])))


def obligations(tier):
    obs = [{"name": "contract/library", "fn": "ob_rng_contract", "params": {}, "vacuity": False}]
    nmax = 6 if tier == "quick" else 8
    splits = [[6], [0, 6], [6, 0], [1, 5], [3, 3], [2, 0, 4], [1, 1, 4], [0, 0, 3], [5, 1], [2, 2, 2], [0, 1, 0]]
    if tier == "thorough":
        splits += [[8], [4, 4], [1, 0, 7], [3, 2, 3], [2, 2, 2, 2], [0, 8, 0], [7, 1], [1, 1, 1, 5]]
    for nsec in (1, 2, 3):
        for bl in splits:
            if nsec == 3 and sum(bl) > 6 and tier == "quick":
                continue
            obs.append({"name": "cascade/sections%d/blocks%s" % (nsec, "-".join(map(str, bl))), "fn": "ob_cascade", "params": {"nsec": nsec, "blocks": bl}, "weight": nsec * sum(bl) + 1})
    for kind in ("white", "red", "alpha", "pink"):
        for bl in splits:
            obs.append({"name": "stream/%s/blocks%s" % (kind, "-".join(map(str, bl))), "fn": "ob_stream", "params": {"kind": kind, "blocks": bl, "init_filter": False}, "weight": sum(bl) + 2})
        if kind != "white":
            for bl in ([0, 2, 1], [3], [1, 2]):
                obs.append({"name": "stream-settled/%s/blocks%s" % (kind, "-".join(map(str, bl))), "fn": "ob_stream", "params": {"kind": kind, "blocks": bl, "init_filter": True}, "weight": 12})
        obs.append({"name": "seed/%s" % kind, "fn": "ob_seed", "params": {"kind": kind}})
        for m in ((1, 4, 7) if tier == "quick" else (1, 3, 4, 7, 10)):
            obs.append({"name": "get_sample/%s/m%d" % (kind, m), "fn": "ob_get_sample", "params": {"kind": kind, "m": m}, "weight": m})
        for other, pat in ((("white" if kind != "white" else "red"), "abababab"), (kind, "aabbbbbaa"), (("red" if kind != "red" else "pink"), "abbbbab")):
            obs.append({"name": "get_sample-interleaved/%s+%s/%s" % (kind, other, pat), "fn": "ob_get_sample_interleaved", "params": {"kind": kind, "other": other, "pattern": pat}, "weight": 8})
    return obs
