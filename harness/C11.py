"""C11 -- empirical error estimates are the segment scatter in spectral units."""
from . import result as R, kernels as K, C01

PROPERTY = "C11"
META = {
    "bounds": "attribute level: one generic bin, M2>=0, n>=1 integer, S2,fs>0 symbolic (unbounded); kernel level (M2 is the population variance of the per-segment cross products; 0 for K=1; >=0): all 18 backend functions at L<=3, K<=2 with symbolic data/window/omega; the NumPy fallbacks additionally across their chunk boundaries (K=3 split 2+1, K=4 split 2+2 via _chunk=2) (C01 covers the larger shapes)",
    "outside": ["agreement with the analytic deviations for Gaussian noise (statistical clause)", "IEEE rounding"],
    "stubs": C01.META["stubs"],
    "assumptions": ["navg equals the number of segments of the bin (wiring decided in C05)"],
}


def encoded_functions():
    return R.encoded() + K.all_encoded()


def ob_attr(W, cross):
    b = R.bin_inputs(W, cross=cross, pos=False, psd_cs=False)
    fs = W.real("fs")
    if W.sym:
        W.assume(fs > 0)
    r = R.mk(W, [b], cross, fs)
    e = R.el
    M2, n, S2 = b["M2"], b["navg"], b["S2"]
    var = e(r.XY_emp_var)
    W.goal("var=M2/n", W.eq(var, M2 / n))
    W.goal("var>=0", W.ge(var, 0))
    dev = e(r.XY_emp_dev)
    W.goal("dev^2=var", W.eq(dev * dev, var))
    W.goal("dev>=0", W.ge(dev, 0))
    own, other = ("Gxy_emp_dev", "Gxx_emp_dev") if cross else ("Gxx_emp_dev", "Gxy_emp_dev")
    g = e(getattr(r, own))
    W.goal(own + "=sqrt(M2/n)*2/(fs*S2)", W.eq(g * (fs * S2), dev * 2))
    W.goal(own + ">=0", W.ge(g, 0))
    W.goal(other + " is None", getattr(r, other) is None)
    W.goal("XY_M2", W.eq(e(r.XY_M2), M2))
    W.vc_goals("definedness")


def ob_single_segment(W, cross):
    """one segment: M2 = 0 gives zero empirical variance and deviations"""
    b = R.bin_inputs(W, cross=cross, pos=False, psd_cs=False)
    fs = W.real("fs")
    if W.sym:
        W.assume(fs > 0)
    b["M2"] = W.num(0)
    r = R.mk(W, [b], cross, fs)
    W.goal("K=1/var=0", W.eq(R.el(r.XY_emp_var), 0))
    W.goal("K=1/dev=0", W.eq(R.el(r.XY_emp_dev), 0))
    W.goal("K=1/G_emp_dev=0", W.eq(R.el(r.Gxy_emp_dev if cross else r.Gxx_emp_dev), 0))


def ob_m2(W, backend, fam, mode, L, starts, order, N, chunk=None):
    x = W.reals("x", N)
    y = W.reals("y", N) if mode == "csd" else x
    w = W.reals("w", L)
    omega = W.omega("w")
    got = K.run(W, backend, fam, mode, x, y, starts, L, w, omega, order, chunk=chunk)
    ref = K.reference(W, x, y, starts, L, w, omega, order, mode)
    W.goal("M2=population variance", W.eq(got[4], ref[4]))
    # never negative: the reference is a mean of squares sum(dr_k^2+di_k^2)/K -- decided for arbitrary reals dr_k, di_k
    Kn = len(starts)
    d = W.reals("d", 2 * Kn)
    W.goal("mean of squares>=0", W.ge(sum(d[i] * d[i] for i in range(2 * Kn)) / Kn, 0))
    if len(starts) == 1:
        W.goal("M2=0 for one segment", W.eq(got[4], 0))


def obligations(tier):
    obs = []
    for cross in (True, False):
        obs.append({"name": "attr/%s" % ("csd" if cross else "auto"), "fn": "ob_attr", "params": {"cross": cross}})
        obs.append({"name": "single/%s" % ("csd" if cross else "auto"), "fn": "ob_single_segment", "params": {"cross": cross}})
    shapes = [(2, [1]), (2, [0, 2]), (3, [2, 0])] + ([(3, [1, 1]), (4, [0, 2]), (2, [0, 1, 2])] if tier == "thorough" else [])
    for backend in K.BACKENDS:
        for order in (-1, 0, 1, 2):
            fam = K.family_of(order)
            for mode in ("auto", "csd"):
                for L, st in shapes:
                    if mode == "csd" and fam != "win_only" and L >= 3 and len(st) >= 2 and tier == "quick":
                        continue
                    obs.append({"name": "m2/%s/%s_%s/o%d/L%d/s%s" % (backend, fam, mode, order, L, "-".join(map(str, st))), "fn": "ob_m2",
                                "params": dict(backend=backend, fam=fam, mode=mode, L=L, starts=st, order=order, N=L + 2), "weight": L * len(st)})
                if backend == "numpy":
                    # the NumPy fallbacks process segments in chunks: scatter across chunk boundaries (K=3 split 2+1, K=4 split 2+2)
                    for L, st, ch in [(2, [0, 2, 1], 2), (1, [0, 3, 1, 2], 2)] + ([(2, [0, 1, 2, 3], 2), (2, [0, 1, 2, 3], 3)] if tier == "thorough" else []):
                        obs.append({"name": "m2/%s/%s_%s/o%d/L%d/s%s/chunk%d" % (backend, fam, mode, order, L, "-".join(map(str, st)), ch), "fn": "ob_m2",
                                    "params": dict(backend=backend, fam=fam, mode=mode, L=L, starts=st, order=order, N=max(st) + L, chunk=ch), "weight": 3 * L * len(st)})
    return obs
