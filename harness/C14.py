"""C14 -- results do not depend on thread scheduling or on call history."""
import itertools
import numpy as rnp
import z3

from symx import ctx
from symx.proxy import SR, SC, plain
from symx.shim import NumpyShim, MathShim, clone, clone_module, oarr, SymNd, make_builtins
from . import kernels as K, result as R, C05, C20

PROPERTY = "C14"
META = {
    "bounds": {"quick": "parallel kernels (6 Numba prange loops, 6 CUDA kernels): K=3 iterations/threads on symbolic data, L=2: (i) every memory cell allocated outside an iteration is written by at most one iteration and never read by another one (access log over ALL iterations), (ii) every order of executing the iterations (6 permutations) gives the same five statistics; SpectrumResult: every attribute as FIRST access followed by all 44 others (both directions) equals its value on a fresh object, stored arrays never written, also across plot(); SpectrumAnalyzer: plan/compute/compute_single_bin interleavings leave every field unchanged and repeat identically, plan() returns the cached object (also with force_target_nf)",
               "thorough": "K=4 (24 orders), L=3"},
    "outside": ["numba's parfor lowering, real thread counts and chunk sizes (trusted: an iteration-level data race is what makes results schedule-dependent; its absence is what is shown)", "matplotlib internals (axes are stand-ins that accept every call)"],
    "stubs": ["_prange -> iterator over a chosen order that tags every array access with the iteration id", "numba.cuda -> one-thread-per-index launcher in a chosen order", "matplotlib.pyplot -> inert stand-in"],
    "assumptions": [],
}


def encoded_functions():
    import speckit.analysis as A
    return K.all_encoded() + [A.SpectrumResult.__getattr__, A.SpectrumResult.plot, A.SpectrumAnalyzer.plan, A.SpectrumAnalyzer.compute, A.SpectrumAnalyzer.compute_single_bin]


# ----------------------------------------------------------------------------- race freedom
class Log:
    def __init__(self):
        self.it = None          # current iteration id (None = sequential part)
        self.writes = {}        # (array id, flat index) -> set of iteration ids
        self.reads = {}
        self.names = {}
        self.keep = {}          # id -> array: logged arrays are kept alive so that ids are never reused


class TrackNd(SymNd):
    """array allocated by the code under test: every element access is logged with the iteration that performs it"""
    _log = None

    def _note(self, k, kind):
        lg = TrackNd._log
        if lg is None:
            return
        try:
            idxs = rnp.arange(self.size).reshape(self.shape)[k]
        except Exception:
            return
        base = self
        while getattr(base, "base", None) is not None:
            base = base.base
        lg.keep[id(base)] = base
        for ix in rnp.asarray(idxs).reshape(-1):
            d = lg.writes if kind == "w" else lg.reads
            d.setdefault((id(base), int(ix)), set()).add(lg.it)

    def __getitem__(self, k):
        self._note(k, "r")
        return rnp.ndarray.__getitem__(self, k)

    def __setitem__(self, k, v):
        self._note(k, "w")
        rnp.ndarray.__setitem__(self, k, v)


class TrackNp(NumpyShim):
    def empty(self, shape, dtype=None, **k):
        a = NumpyShim.empty(self, shape, dtype, **k)
        return a.view(TrackNd) if isinstance(a, rnp.ndarray) and a.dtype == object else a

    def zeros(self, shape, dtype=None, **k):
        a = NumpyShim.zeros(self, shape, dtype, **k)
        return a.view(TrackNd) if isinstance(a, rnp.ndarray) and a.dtype == object else a


def race_modules(order, log):
    """clones of core/core_cuda whose parallel loops run their iterations in `order` (a permutation), with access tracking"""
    import types as _t, copy as _copy
    import speckit.core as core, speckit.core_cuda as cc
    NP = TrackNp(linalg_qr=K.exact_qr)

    def prange(n):
        for j in [o for o in order if o < n] + [j for j in range(n) if j not in order]:
            log.it = j
            yield j
        log.it = None
    G = clone_module(core, dict(np=NP, _prange=prange))

    class Cuda(K.FakeCuda):
        def device_array(self, n, dtype=None):
            a = rnp.empty(n, dtype=object).view(_TrackDev)
            a.fill(SR(z3.RealVal(0)))
            return a

    class Kern:
        def __init__(self, f, cu):
            self.f, self.cu = f, cu

        def __getitem__(self, cfg):
            blocks, threads = int(cfg[0]), int(cfg[1])

            def launch(*args):
                tids = [o for o in order if o < blocks * threads] + [t for t in range(blocks * threads) if t not in order]
                for tid in tids:
                    self.cu.tid = tid
                    log.it = tid
                    self.f(*args)
                log.it = None
            return launch
    cu = Cuda()
    GC = clone_module(cc, dict(np=NP, math=MathShim(), cuda=cu, THREADS_PER_BLOCK=4, _reduce_stats_nb=G["_reduce_stats_nb"]))
    import types as _ty
    for name in list(GC):
        real = cc.__dict__.get(name)
        if real is not None and hasattr(real, "py_func") and not isinstance(real, _ty.FunctionType) and "cuda" in type(real).__module__ and callable(GC[name]) and not isinstance(GC[name], Kern):
            GC[name] = Kern(GC[name], cu)
    return G, GC


class _TrackDev(TrackNd):
    def copy_to_host(self):
        return rnp.asarray(self).view(SymNd)


def run_order(W, backend, fam, mode, x, y, starts, L, w, om, order_, perm):
    log = Log()
    TrackNd._log = log
    try:
        G, GC = race_modules(list(perm), log)
        f = (GC if backend == "cuda" else G)[K.fname(backend, fam, mode)]
        args = [x] + ([y] if mode == "csd" else []) + [rnp.asarray(starts, dtype=rnp.int64), L, w, om]
        if fam == "poly":
            args.append(G["_build_Q"](L, order_))
        res = [plain(v) for v in f(*args)]
    finally:
        TrackNd._log = None
    return res, log


def ob_race(W, backend, fam, mode, L, Kn, order):
    """iteration-level race freedom of one parallel kernel + independence of the execution order"""
    N = L + Kn
    starts = list(range(Kn))
    x = W.reals("x", N); y = W.reals("y", N) if mode == "csd" else x
    w = W.reals("w", L)
    om = W.omega("w")
    if not W.sym:
        # replay: a data race only shows under real concurrency -- stress the compiled kernel (many segments, all threads, several
        # repetitions) and compare with the single-thread result
        import numba
        ok = True
        if backend == "numba":
            rng = rnp.random.default_rng(17)
            Lb, Kb = 48, 6000
            Nb = Lb + Kb
            xb = rng.standard_normal(Nb); yb = rng.standard_normal(Nb) if mode == "csd" else xb
            wb = rnp.hanning(Lb) + 0.1
            sb = list(range(Kb))
            old = numba.get_num_threads()
            try:
                numba.set_num_threads(1)
                ref = K.run(W, backend, fam, mode, xb, yb, sb, Lb, wb, 0.7, order)
                numba.set_num_threads(numba.config.NUMBA_NUM_THREADS)
                for _ in range(6):
                    got = K.run(W, backend, fam, mode, xb, yb, sb, Lb, wb, 0.7, order)
                    ok = ok and bool(rnp.allclose(got, ref, rtol=1e-9, atol=1e-12))
            finally:
                numba.set_num_threads(old)
        W.resolver = lambda name: ok
        return
    base, log0 = run_order(W, backend, fam, mode, x, y, starts, L, w, om, order, range(Kn))
    multi_w = [k for k, its in log0.writes.items() if len([i for i in its if i is not None]) > 1]
    W.goal("each shared cell written by at most one iteration", not multi_w, cells=len(multi_w))
    cross = [k for k, its in log0.reads.items() if k in log0.writes and any((r is not None and wv is not None and r != wv) for r in its for wv in log0.writes[k])]
    W.goal("no iteration reads a cell written by another iteration", not cross, cells=len(cross))
    for perm in itertools.permutations(range(Kn)):
        if list(perm) == list(range(Kn)):
            continue
        got, _ = run_order(W, backend, fam, mode, x, y, starts, L, w, om, order, perm)
        W.goal("order %s gives the serial result" % "".join(map(str, perm)), W.And(*[W.eq(g, b) for g, b in zip(got, base)]))


# ----------------------------------------------------------------------------- attribute history
ATTRS = C20.PROBES and ["Gxx", "Gyy", "Gxy", "ENBW", "psd", "asd", "ps", "csd", "Gyx", "Hxy", "Hyx", "coh", "ccoh", "cs", "tf", "cf", "cf_db", "cf_rad", "cf_deg", "cf_rad_unwrapped",
                        "cf_deg_unwrapped", "GyyCx", "GyyRx", "GyySx", "Gxx_dev", "Gyy_dev", "Gxy_dev", "Hxy_dev", "coh_dev", "Gxx_error", "Gyy_error", "Gxy_error", "Hxy_mag_error",
                        "Hxy_rad_error", "Hxy_deg_error", "coh_error", "XX_mean", "YY_mean", "XY_M2", "XY_emp_var", "XY_emp_dev", "Gxx_emp_dev", "Gxy_emp_dev", "f", "XX"]


def _same_value(W, a, b):
    if a is None or b is None:
        return a is None and b is None
    if W.sym:
        return W.And(*[W.eq(R.el(a, i), R.el(b, i)) for i in range(len(a))]) if len(a) else True
    return bool(rnp.allclose(a, b, rtol=1e-12, atol=0, equal_nan=True))


def _fresh(W, cross, tag="", dead=False):
    bins = [R.bin_inputs(W, str(j), cross=cross, pos=True) for j in range(2)]
    fs = W.real("fs")
    if W.sym:
        W.assume(fs > 0)
        for j, b in enumerate(bins):
            if cross and not (dead and j == 1):
                W.assume(b["XY"].re * b["XY"].re + b["XY"].im * b["XY"].im > 0)
    if dead and cross:
        # second bin: no coherent power at all (e.g. a dead channel)
        bins[1]["XY"] = bins[1]["XY"] * 0
    return bins, fs


def ob_attr_history(W, cross, first, reverse, dead=False):
    """`first` is accessed first, then every other attribute; each must equal its value on a fresh result; stored arrays never change"""
    bins, fs = _fresh(W, cross, dead=dead)
    if not W.sym and not (fs > 0):
        return
    r = R.mk(W, bins, cross, fs)
    data_before = {k: ([v[i] for i in range(len(v))] if isinstance(v, rnp.ndarray) and v.dtype == object else (v.copy() if isinstance(v, rnp.ndarray) else v)) for k, v in r._data.items()}
    seq = [first] + [a for a in (reversed(ATTRS) if reverse else ATTRS) if a != first]
    got = {}
    for a in seq:
        got[a] = getattr(r, a)
    # second look: the cache returns the same values
    for a in seq:
        again = getattr(r, a)
        W.goal("cached %s returned unchanged" % a, True if again is got[a] else _same_value(W, again, got[a]))
    for a in seq:
        base = getattr(R.mk(W, bins, cross, fs), a)
        W.goal("%s after %s = %s alone" % (a, first, a), _same_value(W, got[a], base))
    ok = True
    for k, v in r._data.items():
        b = data_before[k]
        if isinstance(v, rnp.ndarray) and v.dtype == object:
            ok = ok and all(v[i] is b[i] for i in range(len(v)))
        elif isinstance(v, rnp.ndarray):
            ok = ok and bool(rnp.array_equal(v, b, equal_nan=True))
    W.goal("stored statistics never written", ok)


class _Inert:
    """stand-in for matplotlib objects: accepts every call"""
    def __getattr__(self, n):
        return _Inert()

    def __call__(self, *a, **k):
        return _Inert()

    def __iter__(self):
        return iter((_Inert(), _Inert()))


class _Plt:
    def subplots(self, *a, **k):
        if a and a[0] == 2:
            return _Inert(), (_Inert(), _Inert())
        return _Inert(), _Inert()

    def __getattr__(self, n):
        return _Inert()


def do_plot(W, r, which, kw):
    """call r.plot(which, **kw): symbolic world with inert matplotlib stand-ins, concrete world with the Agg backend"""
    if W.sym:
        ct = type("ct", (), {"mag2db": staticmethod(lambda m: m)})
        # the result object is already an instance of the fully cloned class; give its module namespace the inert pyplot
        G = R._C["G"]
        old_plt, old_ct = G.get("plt"), G.get("ct")
        for fn_ in vars(type(r)).values():
            if hasattr(fn_, "__globals__"):
                fn_.__globals__["plt"] = _Plt(); fn_.__globals__["ct"] = ct
                break
        try:
            r.plot(which, **kw)
        except (ValueError, TypeError) as e:
            W.note("plot raised %r on symbolic data (not part of the property)" % (e,))
    else:
        import matplotlib
        matplotlib.use("Agg")
        import matplotlib.pyplot as plt
        try:
            fig, _ = r.plot(which, **kw)
            plt.close("all")
        except Exception as e:
            W.note("plot raised %r" % (e,))


def ob_plot_history(W, which, kw):
    """plot() is a reader: attributes computed before or after it are unaffected"""
    cross = which in ("bode", "coh", "csd", "cf")
    bins, fs = _fresh(W, cross)
    if not W.sym and not (fs > 0):
        return
    import speckit.analysis as A
    r = R.mk(W, bins, cross, fs)
    names = [a for a in ATTRS if getattr(R.mk(W, bins, cross, fs), a) is not None]
    pre = {a: getattr(r, a) for a in names[::3]}
    do_plot(W, r, which, kw)
    for a in names:
        base = getattr(R.mk(W, bins, cross, fs), a)
        W.goal("%s unaffected by plot(%s)" % (a, which), _same_value(W, getattr(r, a), base))
    for a, v in pre.items():
        W.goal("%s computed before plot still the same object/value" % a, getattr(r, a) is v)


# ----------------------------------------------------------------------------- analyzer history
def ob_analyzer_history(W, seq, order, iscsd, backend):
    """interleavings of plan / compute / compute_single_bin on one analyzer: each call behaves as on a fresh analyzer and leaves it unchanged"""
    if not W.sym:
        return _concrete_history(W, seq, order, iscsd, backend)
    Ls, Ks = [6, 4], [1, 2]
    N = 8
    fs = W.real("fs"); W.assume(fs > 0)
    fv = [W.real("f%d" % j) for j in range(2)]
    freq = W.real("freq", lo=0)
    x1 = W.reals("x", N); x2 = W.reals("y", N) if iscsd else None
    D = [rnp.array([0]), rnp.array([0, 4])]

    def mkplan(**kw):
        return {"f": oarr(fv), "r": oarr([fs / L for L in Ls]), "b": oarr([fv[j] * Ls[j] / fs for j in range(2)]), "L": rnp.array(Ls), "K": rnp.array(Ks), "navg": rnp.array(Ks),
                "D": [d.copy() for d in D], "O": rnp.zeros(2), "nf": 2}

    def run(ops):
        rec = C05.Rec()
        G, win_stub = C05._sym_setup(rec, "kaiser", run_real=True)     # the NumPy fallbacks really run on the analyzer's arrays
        a = C05._mk(W, G, N, order, iscsd, backend, "kaiser", win_stub, 2.5, fs, x1, x2)
        a.config["scheduler_func"] = mkplan
        a._cfg_at_start = dict(a.config)
        outs = []
        for op in ops:
            n0 = len(rec.calls)
            if op == "plan":
                outs.append(("plan", a.plan(), []))
            elif op == "compute":
                res = a.compute()
                outs.append(("compute", res, rec.calls[n0:]))
            else:
                res = a.compute_single_bin(freq, L=4)
                outs.append(("single", res, rec.calls[n0:]))
        return a, outs, rec
    a, outs, rec = run(seq)
    snap_cfg = None
    for i, (op, res, calls) in enumerate(outs):
        a0, outs0, _ = run([op])
        _, res0, calls0 = outs0[0]
        tag = "step%d:%s" % (i, op)
        if op == "plan":
            W.goal(tag + "/same plan fields as on a fresh analyzer", all(rnp.array_equal(rnp.asarray(res[k]), rnp.asarray(res0[k])) for k in ("L", "K", "navg")) and len(res["D"]) == len(res0["D"]))
            W.goal(tag + "/plan is the cached object", res is a._plan_cache and a.plan() is res)
        else:
            W.goal(tag + "/same kernel calls as on a fresh analyzer", len(calls) == len(calls0) and all(_same_call(c, c0) for c, c0 in zip(calls, calls0)))
            W.goal(tag + "/same omega", W.And(*[W.eq(c["args"][-1 if c["fam"] != "poly" else -2], c0["args"][-1 if c0["fam"] != "poly" else -2]) for c, c0 in zip(calls, calls0)]) if calls else True)
    W.goal("record untouched", all(a.x1[i] is x1[i] for i in range(N)) and (not iscsd or all(a.x2[i] is x2[i] for i in range(N))))
    fresh_cfg = a._cfg_at_start          # the configuration the analyzer had before the first call
    changed = [k for k in set(fresh_cfg) | set(a.config) if not _cfg_same(fresh_cfg.get(k), a.config.get(k))]
    W.goal("configuration unchanged", not changed, changed=changed)
    W.goal("scalar fields unchanged", a.nx == N and a.iscsd == iscsd and a.fs is fs)


def _cfg_same(u, v):
    try:
        return bool(u == v) or u is v
    except Exception:
        return u is v


def _same_call(c, c0):
    if (c["backend"], c["fam"], c["mode"]) != (c0["backend"], c0["fam"], c0["mode"]):
        return False
    for a, b in zip(c["args"], c0["args"]):
        if isinstance(a, rnp.ndarray) and a.dtype != object:
            if not rnp.array_equal(a, b):
                return False
        elif isinstance(a, rnp.ndarray):
            if a.shape != b.shape:
                return False
        elif isinstance(a, (int,)) and a != b:
            return False
    return True


def _concrete_history(W, seq, order, iscsd, backend):
    import speckit.analysis as A
    rng = rnp.random.default_rng(3)
    N = 512
    data = rng.standard_normal((2, N)) if iscsd else rng.standard_normal(N)
    keep = data.copy()
    mk = lambda: A.SpectrumAnalyzer(data, 2.0, order=order, backend=backend, Jdes=20, Kdes=8, olap=0.0 if order == 0 else 0.5, Lmin=64, scheduler="ltf")
    a = mk()
    ok = True
    for op in seq:
        if op == "plan":
            p = a.plan(); ok = ok and (a.plan() is p)
        elif op == "compute":
            r = a.compute(); r0 = mk().compute()
            ok = ok and bool(rnp.allclose(r.XX, r0.XX, rtol=1e-10) and rnp.allclose(r.XY, r0.XY, rtol=1e-10, atol=1e-14))
        else:
            r = a.compute_single_bin(0.2, L=128); r0 = mk().compute_single_bin(0.2, L=128)
            ok = ok and bool(rnp.allclose(r.XX, r0.XX, rtol=1e-10))
        ok = ok and bool(rnp.array_equal(data, keep))
    # ... and the small configuration of the symbolic run itself (stub plan with L=[6,4], K=[1,2] on N=8 samples, single bin at L=4),
    # with the numbers of the solver's model
    N2, Ls, Ks = 8, [6, 4], [1, 2]
    fs = float(W.real("fs")); fv = [float(W.real("f%d" % j)) for j in range(2)]; freq = float(W.real("freq"))
    xs = rnp.array([float(v) for v in W.reals("x", N2)])
    d2 = rnp.vstack([xs, rnp.array([float(v) for v in W.reals("y", N2)])]) if iscsd else xs
    if fs > 0 and freq >= 0:
        def mkplan(**kw):
            return {"f": rnp.array(fv), "r": rnp.array([fs / L for L in Ls]), "b": rnp.array([fv[j] * Ls[j] / fs for j in range(2)]), "L": rnp.array(Ls), "K": rnp.array(Ks), "navg": rnp.array(Ks),
                    "D": [rnp.array([0]), rnp.array([0, 4])], "O": rnp.zeros(2), "nf": 2}
        mk2 = lambda: A.SpectrumAnalyzer(d2, fs, order=order, backend=backend, scheduler=mkplan, win="kaiser")
        b = mk2()
        same = lambda u, v: bool(rnp.allclose(rnp.asarray(u, dtype=complex), rnp.asarray(v, dtype=complex), rtol=1e-9, atol=1e-12, equal_nan=True))
        try:
            for op in seq:
                if op == "plan":
                    b.plan()
                elif op == "compute":
                    r, r0 = b.compute(), mk2().compute()
                    ok = ok and same(r.XX, r0.XX) and same(r.XY, r0.XY) and same(r.M2, r0.M2)
                else:
                    r, r0 = b.compute_single_bin(freq, L=4), mk2().compute_single_bin(freq, L=4)
                    ok = ok and same(r.XX, r0.XX) and same(r.XY, r0.XY) and same(r.M2, r0.M2) and same(r.navg, r0.navg) and len(r.D[0]) == len(r0.D[0]) and same(r.D[0], r0.D[0])
        except (ValueError, RuntimeError):
            pass       # a configuration the public API rejects (e.g. frequency beyond Nyquist): nothing to compare
    W.resolver = lambda name: ok


def ob_forced_plan_history(W, lo, hi):
    """plan() with force_target_nf, called twice (and via compute-like reuse): same cached object, same bin count, no second search"""
    import speckit.analysis as A, speckit.utils as U
    from . import sched as SC
    target = W.int("target", lo=1, hi=2)
    nfs = {J: W.int("nf_%d" % J, lo=1, hi=2) for J in range(lo, hi + 1)}
    calls = []

    def sched(**kw):
        J = int(kw["Jdes"])
        calls.append(J)
        n = nfs[J]
        nb = 1 if n == 1 else 2
        return {"f": rnp.arange(1, nb + 1) * 0.1, "r": rnp.full(nb, 0.1), "b": rnp.arange(1, nb + 1) * 1.0, "L": rnp.full(nb, 10), "K": rnp.full(nb, 1),
                "navg": rnp.full(nb, 1), "D": [rnp.array([0])] * nb, "O": rnp.zeros(nb), "nf": n}
    cfgd = {"scheduler_func": sched, "scheduler_name": "stub", "final_olap": 0.5, "bmin": 1.0, "Lmin": 1, "Kdes": 10, "force_target_nf": True, "Jdes": target, "band": None, "num_patch_pts": None}
    if W.sym:
        G = clone_module(A, dict(np=NumpyShim(), find_Jdes_binary_search=clone_module(U, dict(MIN_JDES=lo, MAX_JDES=hi))["find_Jdes_binary_search"]))
        a = object.__new__(G["SpectrumAnalyzer"])
    else:
        a = object.__new__(A.SpectrumAnalyzer)
        old = (U.MIN_JDES, U.MAX_JDES); U.MIN_JDES, U.MAX_JDES = lo, hi
    a.fs = 1.0; a.nx = 10; a.verbose = False; a.iscsd = False; a.config = cfgd; a._plan_cache = None
    try:
        try:
            p1 = a.plan()
        except RuntimeError:
            W.goal("forced/second-call-identical", True)
            return
        n_calls = len(calls)
        p2 = a.plan()
        W.goal("forced/second-call-identical", p2 is p1)
        W.goal("forced/no-second-search", len(calls) == n_calls)
        W.goal("forced/count-stable", W.eq(p2["nf"], target))
    finally:
        if not W.sym:
            U.MIN_JDES, U.MAX_JDES = old


def obligations(tier):
    obs = []
    Kn = 3 if tier == "quick" else 4
    Lr = 2 if tier == "quick" else 3
    for backend in ("numba", "cuda"):
        for order in (-1, 0, 1, 2):
            fam = K.family_of(order)
            for mode in ("auto", "csd"):
                if tier == "quick" and order == 2 and mode == "csd":
                    pass
                obs.append({"name": "race/%s/%s_%s/o%d" % (backend, fam, mode, order), "fn": "ob_race", "params": dict(backend=backend, fam=fam, mode=mode, L=Lr, Kn=Kn, order=order), "weight": 20, "timeout": 30})
    for cross in (True, False):
        firsts = ATTRS if tier == "thorough" else ATTRS[::2] + ["Gxy_emp_dev", "Gxx_emp_dev", "Hxy_deg_error", "cf_deg_unwrapped"]
        for i, first in enumerate(dict.fromkeys(firsts)):
            obs.append({"name": "attr-history/%s/first-%s" % ("csd" if cross else "auto", first), "fn": "ob_attr_history", "params": {"cross": cross, "first": first, "reverse": bool(i % 2)}, "weight": 4, "timeout": 30})
    for first in ("coh", "GyyCx", "Gxx_dev", "coh_error", "Hxy"):
        obs.append({"name": "attr-history/csd-zero-coherence-bin/first-%s" % first, "fn": "ob_attr_history", "params": {"cross": True, "first": first, "reverse": first in ("coh", "Hxy"), "dead": True}, "weight": 4, "timeout": 30})
    for which, kw in (("bode", {"errors": True, "sigma": 2}), ("bode", {"errors": True, "sigma": 3, "deg": False, "dB": True}), ("asd", {"errors": True, "sigma": 2}), ("psd", {"errors": True, "sigma": 2}),
                      ("coh", {"errors": True, "sigma": 2}), ("cf", {"errors": True, "sigma": 2}), ("csd", {"errors": True, "sigma": 2})):
        obs.append({"name": "plot-history/%s/%s" % (which, "-".join("%s%s" % kv for kv in sorted(kw.items()))), "fn": "ob_plot_history", "params": {"which": which, "kw": kw}, "fork": True, "max_paths": 8, "weight": 6})
    seqs = [["plan", "plan"], ["compute", "compute"], ["single", "compute"], ["compute", "single", "compute"], ["plan", "single", "plan", "compute"]]
    cfgs = [(0, True, "numpy"), (1, False, "numba"), (-1, True, "cuda")] if tier == "quick" else [(o, c, b) for o in (-1, 0, 1, 2) for c in (False, True) for b in ("numba", "numpy", "cuda")]
    for seq in seqs:
        for (order, cs, bk) in cfgs:
            obs.append({"name": "analyzer-history/%s/o%d/%s/%s" % ("-".join(seq), order, "csd" if cs else "auto", bk), "fn": "ob_analyzer_history",
                        "params": {"seq": seq, "order": order, "iscsd": cs, "backend": bk}, "fork": True, "max_paths": 16, "weight": 6})
    obs.append({"name": "analyzer-history/forced-plan", "fn": "ob_forced_plan_history", "params": {"lo": 100, "hi": 103}, "fork": True, "max_paths": 400})
    return obs
