"""C06 -- spectral densities are calibrated: power, bandwidth and scaling laws."""
from . import kernels as K, result as R, C01

PROPERTY = "C06"
META = {
    "bounds": {"quick": "calibration identity: 6 auto functions of orders -1 (and 0 with the mean term), L in 1..4, K<=2 segments at arbitrary starts, symbolic amplitude, phase (cos/sin pair), frequency (c,s) and ARBITRARY real window; scaling laws: 18 functions at L<=3,K<=2 with symbolic factor; SpectrumResult scaling in c and a on a generic bin (unbounded symbols)",
               "thorough": "L up to 6"},
    "outside": ["smallness of the image term W(2*omega0) for the Kaiser window: bounded by C12's side-lobe result, not multiplied into a numeric tolerance here", "frequency/ENBW scaling of the schedulers under fs -> a*fs is decided in C03 (r*L=fs, f0=bmin*fs/N, f'=f+r are homogeneous in fs)"],
    "stubs": C01.META["stubs"],
    "assumptions": ["sinusoid analysed at its own frequency, order -1 (the detrended variants remove the segment mean of the sinusoid, which is not part of the property)"],
}


def encoded_functions():
    return K.all_encoded() + R.encoded()


def ob_calibration(W, backend, L, starts, N):
    """x[n]=A cos(w0 n+phi) analysed at w0: XX_k = |A/2 (e^{i phi_k} S1 + e^{-i phi_k} W2)|^2, phi_k = phi + w0*s_k, W2 = sum w e^{-2 i w0 n}
    hence ps = 2*XX/S1^2 = A^2/2 exactly whenever the image term W2 vanishes -- for every window, L and fractional bin"""
    A = W.real("A")
    om = W.omega("w")
    ph = W.omega("phi")
    w = W.reals("w", L)
    e_phi = W.cis(ph, 1)
    xs = []
    for n in range(N):
        z = W.cis(om, n) * e_phi           # e^{i(w0 n + phi)}
        xs.append(z.real * A)
    if W.sym:
        from symx.shim import oarr
        x = oarr(xs)
    else:
        import numpy as rnp
        x = rnp.array(xs, dtype=float)
    got = K.run(W, backend, "win_only", "auto", x, x, starts, L, w, om, -1)
    S1 = sum(w[n] for n in range(L))
    W2 = None
    for n in range(L):
        t = W.cis(om, -2 * n) * w[n]
        W2 = t if W2 is None else W2 + t
    tot = 0
    for s in starts:
        e_k = W.cis(om, s) * e_phi
        X = (e_k * S1 + e_k.conjugate() * W2) * (A / 2)
        tot = tot + X.real * X.real + X.imag * X.imag
    W.goal("XX=|A/2(e^{i phi}S1+e^{-i phi}W2)|^2", W.eq(got[0], tot / len(starts)))


def ob_power(W, first=()):
    """SpectrumResult: ps = psd*ENBW = 2*XX/S12 ; ENBW = fs*S2/S12 -- so XX=(A/2)^2*S1^2 gives ps=A^2/2"""
    b = R.bin_inputs(W, cross=False, pos=True)
    fs = W.real("fs"); A = W.real("A")
    if W.sym:
        W.assume(fs > 0)
    b["XX"] = b["S12"] * A * A / 4
    b["YY"] = b["XX"]
    if W.sym:
        from symx.proxy import SC
        b["XY"] = SC(b["XX"], b["XX"] * 0)
    else:
        b["XY"] = complex(b["XX"], 0)
    r = R.mk(W, [b], False, fs)
    for a in first:
        getattr(r, a)         # the user looked at other attributes of the result first: lazily cached helpers must not be altered by them
    W.goal("ps=A^2/2", W.eq(R.el(r.ps), A * A / 2))
    W.goal("ENBW=fs*S2/S12", W.eq(R.el(r.ENBW), fs * b["S2"] / b["S12"]))
    W.goal("ps=psd*ENBW", W.eq(R.el(r.ps), R.el(r.psd) * R.el(r.ENBW)))


def ob_kernel_scaling(W, backend, fam, mode, L, starts, order, N, which):
    x = W.reals("x", N); y = W.reals("y", N) if mode == "csd" else x
    w = W.reals("w", L); om = W.omega("w"); c = W.real("c")
    base = K.run(W, backend, fam, mode, x, y, starts, L, w, om, order)
    if mode == "auto":
        got = K.run(W, backend, fam, mode, x * c, x * c, starts, L, w, om, order)
        exp = [base[0] * c * c, base[1] * c * c, base[2] * c * c, base[3] * c * c, base[4] * c ** 4]
    elif which == "x":
        got = K.run(W, backend, fam, mode, x * c, y, starts, L, w, om, order)
        exp = [base[0] * c * c, base[1], base[2] * c, base[3] * c, base[4] * c * c]
    else:
        got = K.run(W, backend, fam, mode, x, y * c, starts, L, w, om, order)
        exp = [base[0], base[1] * c * c, base[2] * c, base[3] * c, base[4] * c * c]
    for nm, g, e in zip(K.STAT_NAMES, got, exp):
        W.goal("scale-%s/%s" % (which, nm), W.eq(g, e))


def ob_result_scaling(W, which, first=()):
    """c*x: Gxx*c^2, Gxy*c, coh same, Hxy/c ; c*y: Gyy*c^2, Gxy*c, Hxy*c ; fs->a*fs: densities/a, ENBW*a, coh/Hxy same"""
    b = R.bin_inputs(W, cross=True, pos=True)
    fs = W.real("fs"); c = W.real("c")
    if W.sym:
        W.assume(fs > 0); W.assume(c > 0)
    elif not (c > 0 and fs > 0):
        return
    b2 = dict(b)
    fs2 = fs
    if which == "x":
        b2["XX"] = b["XX"] * c * c; b2["XY"] = b["XY"] * c
    elif which == "y":
        b2["YY"] = b["YY"] * c * c; b2["XY"] = b["XY"] * c
    else:
        fs2 = fs * c
    r, r2 = R.mk(W, [b], True, fs), R.mk(W, [b2], True, fs2)
    for a in first:
        getattr(r2, a)
    e = R.el
    if which == "x":
        W.goal("Gxx*c^2", W.eq(e(r2.Gxx), e(r.Gxx) * c * c)); W.goal("Gyy same", W.eq(e(r2.Gyy), e(r.Gyy)))
        W.goal("Gxy*c", W.eq(e(r2.Gxy), e(r.Gxy) * c)); W.goal("coh same", W.eq(e(r2.coh), e(r.coh)))
        W.goal("Hxy/c", W.eq(e(r2.Hxy) * c, e(r.Hxy)))
    elif which == "y":
        W.goal("Gyy*c^2", W.eq(e(r2.Gyy), e(r.Gyy) * c * c)); W.goal("Gxx same", W.eq(e(r2.Gxx), e(r.Gxx)))
        W.goal("Gxy*c", W.eq(e(r2.Gxy), e(r.Gxy) * c)); W.goal("coh same", W.eq(e(r2.coh), e(r.coh)))
        W.goal("Hxy*c", W.eq(e(r2.Hxy), e(r.Hxy) * c))
    else:
        for k in ("Gxx", "Gyy", "Gxy"):
            W.goal("%s/a" % k, W.eq(e(getattr(r2, k)) * c, e(getattr(r, k))))
        W.goal("ENBW*a", W.eq(e(r2.ENBW), e(r.ENBW) * c))
        W.goal("coh same", W.eq(e(r2.coh), e(r.coh))); W.goal("Hxy same", W.eq(e(r2.Hxy), e(r.Hxy)))
        W.goal("cs same", W.eq(e(r2.cs), e(r.cs)))


def obligations(tier):
    obs = [{"name": "result/power", "fn": "ob_power", "params": {}}]
    for which in ("x", "y", "fs"):
        obs.append({"name": "result/scaling-%s" % which, "fn": "ob_result_scaling", "params": {"which": which}})
    # the same laws when other (lazily computed) attributes of the result were read first
    FIRST = (["Gxx_emp_dev"], ["XY_emp_var", "XY_emp_dev"], ["Gxx_dev", "Gxx_error"], ["asd", "ENBW"], ["Gxy_emp_dev", "Gxy_dev", "coh_dev", "Hxy_dev"])
    for fi in FIRST:
        if not any(a.startswith(("Gxy", "coh", "Hxy")) for a in fi):
            obs.append({"name": "result/power/after-%s" % "+".join(fi), "fn": "ob_power", "params": {"first": list(fi)}})
        for which in ("x", "y", "fs"):
            obs.append({"name": "result/scaling-%s/after-%s" % (which, "+".join(fi)), "fn": "ob_result_scaling", "params": {"which": which, "first": list(fi)}})
    Lmax = 4 if tier == "quick" else 6
    for backend in K.BACKENDS:
        for L in range(1, Lmax + 1):
            for st in ([[0], [1, 2]] if L <= 3 or tier == "thorough" else [[0]]):
                obs.append({"name": "calib/%s/L%d/s%s" % (backend, L, "-".join(map(str, st))), "fn": "ob_calibration",
                            "params": dict(backend=backend, L=L, starts=st, N=L + 2), "weight": L * L * len(st) * 3, "timeout": 30 if tier == "quick" else 200})
        for order in (-1, 0, 1, 2):
            fam = K.family_of(order)
            for mode in ("auto", "csd"):
                for L, st in ([(2, [1]), (3, [2, 0])] if tier == "quick" else [(2, [1]), (3, [2, 0]), (4, [0, 2])]):
                    if fam == "poly" and mode == "csd" and L >= 3 and tier == "quick":
                        continue
                    for which in (("x", "y") if mode == "csd" else ("x",)):
                        obs.append({"name": "kscale/%s/%s_%s/o%d/L%d/%s" % (backend, fam, mode, order, L, which), "fn": "ob_kernel_scaling",
                                    "params": dict(backend=backend, fam=fam, mode=mode, L=L, starts=st, order=order, N=L + 2, which=which), "weight": L * len(st)})
    return obs
