"""C07 -- transfer-function estimates recover gain and phase with the right sign, on every backend."""
import numpy as rnp
from . import kernels as K, result as R, C01

PROPERTY = "C07"
META = {
    "bounds": {"quick": "gain after the buffers were refilled in place (second call, L=2, K=2, orders 0 and 1, three backends); gain: 9 csd functions, L in 1..4, K<=2, N=L+2, symbolic x, window, omega, gain g; delay: N=L in 2..4, K=1, constant symbolic window, every circular delay d<L, omega ANY L-th root of unity (constraint (c+is)^L=1 on symbolic c,s), orders -1 and 0, three backends; composition with SpectrumResult.Hxy/coh on a generic bin",
               "thorough": "gain up to L=6,K<=3; delay up to L=6"},
    "outside": ["the d/L magnitude edge effect of a linear (non-circular) delay under a tapered window", "IEEE rounding"],
    "stubs": C01.META["stubs"],
    "assumptions": ["delay clause is decided for the exact instance 'circular delay at a DFT bin frequency', where Hxy=exp(-i*omega*d) holds with equality"],
}


def encoded_functions():
    return K.all_encoded() + R.encoded()


def ob_gain(W, backend, fam, L, starts, order, N):
    x = W.reals("x", N); w = W.reals("w", L); om = W.omega("w"); g = W.real("g")
    y = x * g
    c = K.run(W, backend, fam, "csd", x, y, starts, L, w, om, order)
    # Hxy = conj(XY)/XX = g  <=>  Re XY = g*XX, Im XY = 0 ; coherence 1 <=> |XY|^2 = XX*YY
    W.goal("gain/ReXY=g*XX", W.eq(c[2], c[0] * g))
    W.goal("gain/ImXY=0", W.eq(c[3], 0))
    W.goal("gain/YY=g^2*XX", W.eq(c[1], c[0] * g * g))


def ob_gain_history(W, backend, fam, L, starts, order, N):
    """a measurement repeated after the record buffers were refilled in place (first y = g1*x, then new x and y = g2*x): the second
    call gives the new gain -- nothing kept from the first call (device copies, caches) may be used"""
    x = W.reals("x", N); g1 = W.real("g1"); g2 = W.real("g2")
    y = x * g1 if W.sym else rnp.asarray(x, dtype=float) * float(g1)
    if not W.sym:
        x = rnp.asarray(x, dtype=float)
    w = W.reals("w", L)
    om = W.omega("w")
    K.run(W, backend, fam, "csd", x, y, starts, L, w, om, order)
    x2 = W.reals("p", N)
    x[:] = x2
    y[:] = (x2 * g2) if W.sym else rnp.asarray(x2, dtype=float) * float(g2)
    c = K.run(W, backend, fam, "csd", x, y, starts, L, w, om, order)
    ref = K.run(W, backend, fam, "auto", rnp.array(list(x2), dtype=object) if W.sym else rnp.array(x2, dtype=float), None, starts, L, w, om, order)
    W.goal("second measurement: Re XY = g2*XX", W.eq(c[2], ref[0] * g2))
    W.goal("second measurement: Im XY = 0", W.eq(c[3], 0))
    W.goal("second measurement: XX of the new record", W.eq(c[0], ref[0]))


def ob_chain(W):
    """SpectrumResult: Hxy*XX = conj(XY) and coh*XX*YY=|XY|^2 on a generic bin (closes kernel facts to Hxy=g, coh=1)"""
    b = R.bin_inputs(W, cross=True, pos=True, psd_cs=True)
    g = W.real("g")
    fs = W.real("fs")
    if W.sym:
        from symx.proxy import SC
        W.assume(fs > 0)
        b["XY"] = SC(b["XX"] * g, b["XX"] * 0)
        b["YY"] = b["XX"] * g * g
        W.assume(g != 0)
    else:
        b["XY"] = complex(b["XX"] * g, 0.0); b["YY"] = b["XX"] * g * g
        if g == 0:
            return
    r = R.mk(W, [b], True, fs)
    H = R.el(r.Hxy)
    W.goal("Hxy=g", W.eq(H, g))
    W.goal("tf=g", W.eq(R.el(r.tf), g))
    W.goal("coh=1", W.eq(R.el(r.coh), 1))
    W.goal("cf=|g|", W.eq(R.el(r.cf), W.abs(g)))


def ob_delay(W, backend, fam, L, d, order):
    """y[n]=x[(n-d) mod L], omega an L-th root of unity: conj(XY) = XX*exp(-i*omega*d), i.e. phase(Hxy) = -omega*d"""
    import numpy as rnp
    x = W.reals("x", L)
    w0 = W.real("w0")
    om = W.omega("w")
    if W.sym:
        from symx.shim import oarr
        from symx.proxy import SC
        y = oarr([x[(n - d) % L] for n in range(L)])
        w = oarr([w0] * L)
        one = W.cis(om, L)
        W.assume(W.eq(one, 1))
    else:
        import math
        y = rnp.array([x[(n - d) % L] for n in range(L)])
        w = rnp.full(L, w0)
        # the model's (c,s) is an exact L-th root of unity; rebuild omega exactly from its index
        k = round(om * L / (2 * math.pi))
        om = 2 * math.pi * k / L
    c = K.run(W, backend, fam, "csd", x, y, [0], L, w, om, order)
    ph = W.cis(om, -d)            # exp(-i*omega*d)
    # conj(XY) = XX * exp(-i omega d)
    W.goal("delay/Re", W.eq(c[2], c[0] * ph.real))
    W.goal("delay/Im", W.eq(-c[3], c[0] * ph.imag))
    W.goal("delay/|H|=1", W.eq(c[1], c[0]))


def ob_chain_phase(W):
    """SpectrumResult on a generic bin with conj(XY)=XX*(pc+i*ps): Hxy = pc+i*ps (sign convention conj(X)Y/|X|^2)"""
    b = R.bin_inputs(W, cross=True, pos=True, psd_cs=False)
    pc, ps = W.real("pc"), W.real("ps")
    fs = W.real("fs")
    if W.sym:
        from symx.proxy import SC
        W.assume(fs > 0)
        b["XY"] = SC(b["XX"] * pc, -(b["XX"] * ps))
    else:
        b["XY"] = complex(b["XX"] * pc, -b["XX"] * ps)
    r = R.mk(W, [b], True, fs)
    H = R.el(r.Hxy)
    W.goal("Hxy=conj(XY)/XX", W.And(W.eq(H.real, pc), W.eq(H.imag, ps)))


def obligations(tier):
    obs = [{"name": "chain/gain", "fn": "ob_chain", "params": {}}, {"name": "chain/phase", "fn": "ob_chain_phase", "params": {}}]
    Lmax = 4 if tier == "quick" else 6
    for backend in K.BACKENDS:
        for order in (-1, 0, 1, 2):
            fam = K.family_of(order)
            for L in range(1, Lmax + 1):
                svs = [[1], [2, 0]] if tier == "quick" else [[1], [2, 0], [0, 2, 1]]
                for st in svs:
                    if fam == "poly" and L >= 4 and len(st) >= 2 and tier == "quick":
                        continue
                    obs.append({"name": "gain/%s/%s/o%d/L%d/s%s" % (backend, fam, order, L, "-".join(map(str, st))), "fn": "ob_gain",
                                "params": dict(backend=backend, fam=fam, L=L, starts=st, order=order, N=L + 2), "weight": L * len(st)})
        for order in (0, 1):
            fam = K.family_of(order)
            obs.append({"name": "gain-history/%s/%s/o%d" % (backend, fam, order), "fn": "ob_gain_history", "params": dict(backend=backend, fam=fam, L=2, starts=[1, 0], order=order, N=4), "weight": 4})
        for order in (-1, 0):
            fam = K.family_of(order)
            for L in range(2, Lmax + 1):
                for d in range(0, L):
                    obs.append({"name": "delay/%s/%s/L%d/d%d" % (backend, fam, L, d), "fn": "ob_delay",
                                "params": dict(backend=backend, fam=fam, L=L, d=d, order=order), "weight": L * L, "timeout": 20 if tier == "quick" else 120})
    return obs
