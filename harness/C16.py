"""C16 -- fractional time shifting is exact Lagrange interpolation."""
import math
from fractions import Fraction as F
import numpy as rnp
import z3

from symx import ctx
from symx.proxy import SR, plain
from symx.shim import NumpyShim, clone, clone_module, oarr, SymNd

PROPERTY = "C16"
META = {
    "bounds": {"quick": "taps: orders 1..15 and the default 31 with a symbolic fraction d in [0,1) (every tap equal to the textbook Lagrange weight, sum 1); timeshift, constant path: records of n=7 symbolic samples, orders 1,3,5, ANY real shift in [-(n+3), n+3] (integer part enumerated by value forking, fraction symbolic), every output sample with an interior stencil equals the interpolant at n+s; integer shifts = displacement with held end values; zero shift = identity; symbolic polynomial records of degree<=order reproduced; time-varying path (n=6, orders 1,3) equal to the constant path where both stencils are interior; df_timeshift wiring with symbolic seconds, fs",
               "thorough": "taps up to order 55 (111 attempted, 300 s per tap), timeshift orders up to 9, n=9"},
    "outside": ["orders whose tap identities time out (reported as inconclusive)", "IEEE rounding"],
    "stubs": ["np.pad(mode='edge'), np.correlate, np.einsum, sliding_window_view: numpy's own code on object arrays", "pandas: the real DataFrame; timeshift -> recorder for the wrapper"],
    "assumptions": [],
}


def encoded_functions():
    import speckit.dsp as D
    return [D.lagrange_taps, D.timeshift, D.df_timeshift]


def lag_weight(d, k, halfp):
    """textbook Lagrange weight of node t_k = k-(halfp-1) among nodes -(halfp-1)..halfp, evaluated at d"""
    nodes = [i - (halfp - 1) for i in range(2 * halfp)]
    tk = nodes[k]
    num, den = 1, 1
    for m, tm in enumerate(nodes):
        if m != k:
            num = num * (d - tm)
            den = den * (tk - tm)
    return num / den if not isinstance(num, int) else F(num, den)


def ob_taps(W, halfp, ks):
    import speckit.dsp as D
    d = W.real("d", lo=0)
    if W.sym:
        W.assume(d < 1)
        # interpreted from the source so that int/int constants such as j/halfp stay exact rationals
        from symx import astx
        from harness.sched import glob_for
        taps = astx.run_function(D.lagrange_taps, glob_for(D), (oarr([d]), halfp))
    else:
        if not (0 <= d < 1):
            return
        taps = D.lagrange_taps(rnp.array([d]), halfp)
    W.goal("shape", tuple(taps.shape) == (1, 2 * halfp))
    for k in ks:
        # compared on the scale of the weight itself (the outer weights of a high-order stencil are tiny: 1e-30 at order 111):
        # both sides are divided by |weight at d = 1/2|, a concrete non-zero rational
        sc = 1 / abs(lag_weight(F(1, 2), k, halfp))
        if not W.sym:
            sc = float(sc)
        W.goal("tap[%d]=textbook weight" % k, W.eq(taps[0][k] * sc, lag_weight(d, k, halfp) * sc))
    if ks == list(range(2 * halfp)) or len(ks) == 2 * halfp:
        W.goal("sum=1", W.eq(sum(taps[0][k] for k in range(2 * halfp)), 1))


def _run_timeshift(W, data, shifts, order, varying=False):
    import speckit.dsp as D
    if W.sym:
        from symx import astx
        from harness.sched import glob_for
        taps_exact = lambda sf, hp: astx.run_function(D.lagrange_taps, glob_for(D), (sf, hp))
        G = clone_module(D, dict(np=NumpyShim(), lagrange_taps=taps_exact))
        W.run.concretize_ints = True
        return G["timeshift"](data, shifts, order)
    if isinstance(data, rnp.ndarray) and data.dtype.kind == "i":
        return D.timeshift(data, shifts, order)              # an integer-dtype record is handed over as it is
    return D.timeshift(rnp.asarray(data, dtype=float), shifts, order)


def _record(W, n, intrec):
    """a record of n samples: float64 (symbolic reals) or, with intrec, of integer dtype (symbolic integers, e.g. raw ADC counts)"""
    if not intrec:
        return W.reals("x", n)
    vals = [W.int("x%d" % i, lo=-1000, hi=1000) for i in range(n)]
    if W.sym:
        from symx.shim import IntNd
        return oarr(vals).view(IntNd)
    return rnp.array([int(v) for v in vals], dtype=rnp.int64)


def ob_shift_const(W, n, order, smax, intrec=False):
    halfp = (order + 1) // 2
    x = _record(W, n, intrec)
    s = W.real("s", lo=-smax, hi=smax)
    out = _run_timeshift(W, x, s, order)
    if not W.sym:
        si = math.floor(s)
    else:
        si = None
        # the integer part is concrete on this path (value forking inside the code); recover it from the path condition
        si = ctx.concretize_int(z3.ToInt(s.t))
    d = s - si
    W.goal("length", len(out) == n)
    is_zero = bool(W.eq(s, 0)) if not W.sym else None
    for m in range(n):
        p = m + si
        lo_i, hi_i = p - (halfp - 1), p + halfp
        if lo_i >= 0 and hi_i <= n - 1:
            ref = sum(x[p + (k - (halfp - 1))] * lag_weight(d, k, halfp) for k in range(2 * halfp))
            W.goal("interior[%d]@int%d" % (m, si), W.eq(out[m], ref))
        # integer shift (d=0): pure displacement with the end values held
        held = x[min(max(p, 0), n - 1)]
        W.goal("integer-shift[%d]@int%d" % (m, si), W.Or(W.ne(d, 0), W.eq(out[m], held)))
        if p + halfp < 0 and p - (halfp - 1) < 0:
            pass
    if si + halfp + n - 1 < 0:
        for m in range(n):
            W.goal("beyond-left[%d]@int%d" % (m, si), W.eq(out[m], x[0]))
    if si - (halfp - 1) > n - 1:
        for m in range(n):
            W.goal("beyond-right[%d]@int%d" % (m, si), W.eq(out[m], x[n - 1]))


def ob_zero_shift(W, n, order, varying):
    x = W.reals("x", n)
    if varying:
        sh = rnp.zeros(n)
    else:
        sh = 0.0
    out = _run_timeshift(W, x, sh, order)
    for m in range(n):
        W.goal("identity[%d]" % m, W.eq(out[m], x[m]))


def ob_poly(W, n, order, si):
    """a polynomial record of degree <= order is reproduced exactly at interior samples"""
    halfp = (order + 1) // 2
    a = [W.real("a%d" % j) for j in range(order + 1)]
    d = W.real("d", lo=0)
    if W.sym:
        W.assume(d < 1)
    elif not (0 <= d < 1):
        return
    poly = lambda t: sum(a[j] * t ** j for j in range(order + 1))
    xs = [poly(m) for m in range(n)]
    x = oarr(xs) if W.sym else rnp.array(xs, dtype=float)
    s = d + si
    out = _run_timeshift(W, x, s, order)
    for m in range(n):
        p = m + si
        if p - (halfp - 1) >= 0 and p + halfp <= n - 1:
            W.goal("poly[%d]" % m, W.eq(out[m], poly(s + m)))


def ob_varying(W, n, order, si_a, si_b, intrec=False):
    """per-sample shifts (two different values over the record): each output equals the constant-shift result for its own shift
    wherever both stencils are interior"""
    halfp = (order + 1) // 2
    x = _record(W, n, intrec)
    da, db = W.real("da", lo=0), W.real("db", lo=0)
    if W.sym:
        W.assume(da < 1); W.assume(db < 1)
    elif not (0 <= da < 1 and 0 <= db < 1):
        return
    sa, sb = da + si_a, db + si_b
    shifts = [sa if m % 2 == 0 else sb for m in range(n)]
    sh = oarr(shifts) if W.sym else rnp.array(shifts, dtype=float)
    out = _run_timeshift(W, x, sh, order, varying=True)
    W.goal("length", len(out) == n)
    for m in range(n):
        si, d = (si_a, da) if m % 2 == 0 else (si_b, db)
        p = m + si
        if p - (halfp - 1) >= 0 and p + halfp <= n - 1:
            ref = sum(x[p + (k - (halfp - 1))] * lag_weight(d, k, halfp) for k in range(2 * halfp))
            W.goal("varying[%d]" % m, W.eq(out[m], ref))


def ob_df(W, inplace, index=None):
    """df_timeshift: timeshift is applied with exactly seconds*fs to every selected numeric column and to nothing else"""
    import pandas as pd
    import speckit.dsp as D
    fs = W.real("fs"); sec = W.real("seconds")
    calls = []

    def rec(data, shifts, *a, **k):
        calls.append((rnp.asarray(data).copy(), shifts))
        return rnp.asarray(data) + 1000.0 * len(calls)
    df = pd.DataFrame({"a": [1.0, 2.0, 3.0, 4.0], "b": [5, 6, 7, 8], "txt": ["p", "q", "r", "s"], "c": [0.5, 0.25, 0.125, 0.0]}, index=index)
    before = df.copy(deep=True)
    if W.sym:
        W.assume(fs > 0)
        f = clone_module(D, dict(np=NumpyShim(), timeshift=rec))["df_timeshift"]
    else:
        if not fs > 0:
            return
        old = D.timeshift
        D.timeshift = rec
        f = D.df_timeshift
    try:
        out = f(df, fs, sec, columns=["a", "txt", "b"], inplace=inplace)
    finally:
        if not W.sym:
            D.timeshift = old
    zero = W.eq(sec, 0)
    if out is df and len(calls) == 0:
        W.goal("zero-seconds-returns-frame", zero)
        return
    W.goal("nonzero-path", W.Not(zero))
    W.goal("called-once-per-selected-numeric-column", len(calls) == 2)
    if len(calls) == 2:
        W.goal("column-data", rnp.array_equal(calls[0][0], before["a"].to_numpy()) and rnp.array_equal(calls[1][0], before["b"].to_numpy()))
        W.goal("shift=seconds*fs", W.And(W.eq(calls[0][1], sec * fs, margin=F(1, 10 ** 6)), W.eq(calls[1][1], sec * fs, margin=F(1, 10 ** 6))))
    W.goal("input-frame-untouched", before.equals(df))
    W.goal("same rows, same index", len(out) == len(before) and list(out.index) == list(before.index))
    tgt = (lambda c: c) if inplace else (lambda c: c + "_shifted")
    W.goal("results-stored", rnp.array_equal(out[tgt("a")].to_numpy(), before["a"].to_numpy() + 1000.0) and rnp.array_equal(out[tgt("b")].to_numpy(), before["b"].to_numpy() + 2000.0))
    W.goal("other-columns-untouched", out["c"].equals(before["c"]) and out["txt"].equals(before["txt"]) and (inplace or (out["a"].equals(before["a"]) and out["b"].equals(before["b"]))))


def obligations(tier):
    obs = []
    halfps = [1, 2, 3, 4, 5, 6, 7, 8, 16] if tier == "quick" else [1, 2, 3, 4, 5, 6, 7, 8, 10, 12, 16, 20, 24, 28, 56]
    for hp in halfps:
        ks = list(range(2 * hp))
        if hp <= 8:
            obs.append({"name": "taps/order%d" % (2 * hp - 1), "fn": "ob_taps", "params": {"halfp": hp, "ks": ks}, "timeout": 30 if tier == "quick" else 300, "weight": hp})
        else:
            step = 4 if hp <= 28 else 8
            for i in range(0, 2 * hp, step):
                obs.append({"name": "taps/order%d/k%d" % (2 * hp - 1, i), "fn": "ob_taps", "params": {"halfp": hp, "ks": ks[i:i + step]}, "timeout": 60 if tier == "quick" else 300, "weight": hp * 2})
    if tier == "quick":
        # spot obligations at high orders (the full tap sets are in the thorough tier): the outermost and the central weights
        for hp in (36, 56):
            obs.append({"name": "taps/order%d/spot" % (2 * hp - 1), "fn": "ob_taps", "params": {"halfp": hp, "ks": [0, 1, hp - 1, hp, 2 * hp - 1]}, "timeout": 60, "weight": hp})
    n = 7 if tier == "quick" else 9
    for order in ((1, 3, 5) if tier == "quick" else (1, 3, 5, 7, 9)):
        obs.append({"name": "timeshift/const/order%d" % order, "fn": "ob_shift_const", "params": {"n": n, "order": order, "smax": n + 3}, "fork": True, "max_paths": 400, "weight": 20, "timeout": 30 if tier == "quick" else 200})
        for var in (False, True):
            obs.append({"name": "timeshift/zero/order%d/%s" % (order, "varying" if var else "const"), "fn": "ob_zero_shift", "params": {"n": 5, "order": order, "varying": var}, "fork": True})
    for order, si in ((1, 0), (1, -2), (3, 1), (3, -1)) + (((5, 0), (5, 2)) if tier == "thorough" else ()):
        obs.append({"name": "timeshift/poly/order%d/int%d" % (order, si), "fn": "ob_poly", "params": {"n": 8 if order <= 3 else 10, "order": order, "si": si}, "fork": True, "max_paths": 50, "weight": 8})
    for order, a, b in ((1, 0, 1), (3, -1, 0), (1, 2, -2)) + (((5, 0, 1),) if tier == "thorough" else ()):
        obs.append({"name": "timeshift/varying/order%d/int%d,%d" % (order, a, b), "fn": "ob_varying", "params": {"n": 7 if order <= 3 else 9, "order": order, "si_a": a, "si_b": b}, "fork": True, "max_paths": 100, "weight": 8})
    # records of integer dtype (raw counts): the interpolated values are not integers and must not be cast back
    obs.append({"name": "timeshift/int-record/const/order1", "fn": "ob_shift_const", "params": {"n": 5, "order": 1, "smax": 3, "intrec": True}, "fork": True, "max_paths": 200, "weight": 8})
    obs.append({"name": "timeshift/int-record/varying/order1", "fn": "ob_varying", "params": {"n": 6, "order": 1, "si_a": 0, "si_b": 1, "intrec": True}, "fork": True, "max_paths": 100, "weight": 8})
    obs.append({"name": "timeshift/int-record/varying/order3", "fn": "ob_varying", "params": {"n": 7, "order": 3, "si_a": -1, "si_b": 0, "intrec": True}, "fork": True, "max_paths": 100, "weight": 8})
    for inplace in (False, True):
        for iname, idx in (("range", None), ("offset", [10, 11, 12, 13]), ("unsorted", [3, 0, 2, 1]), ("float", [0.5, 1.0, 1.5, 2.0])):
            obs.append({"name": "df_timeshift/%s/index-%s" % ("inplace" if inplace else "suffix", iname), "fn": "ob_df", "params": {"inplace": inplace, "index": idx}, "fork": True, "max_paths": 20})
    return obs
