"""C04 -- resolution is log-spaced and monotone; averaging honours the overlap."""
from . import sched as SC
from .C02 import split, ob_ltf, ob_vec, ob_new, encoded_functions as _enc, ob_whole_plan, whole_plan_obligations

PROPERTY = "C04"
META = {
    "bounds": {"quick": "monotonicity (ltf/lpsd): the step map state -> (L,K) is monotone, two independent copies of ONE iteration from arbitrary states fi<=fi2, N unbounded, proved as a chain of three links cut at the two rounding statements (each link for arbitrary values of the quantity crossing the cut); vectorised: adjacent entries of the lookup maps, same three-link chain; unclamped-regime clauses, K formula, even spread: one iteration from an arbitrary state, N unbounded (start spread: generic k / generic-element array; literal unrolling N<=12); reported overlap: bins with 1..4 symbolic starts; forced bin count: find_Jdes_binary_search executed in fork mode over ALL return patterns of an uninterpreted scheduler with MIN_JDES..MAX_JDES shrunk to 8 values",
               "thorough": "unrolling N<=24, search range 32 values; whole plans of ltf/lpsd at N=8 path by path (see C02)"},
    "outside": ["'the vectorised scheduler produces the same number of bins as the iterative one to within 10%' (whole-plan property over a transcendental grid: not encodable as a bounded query)", "IEEE ties", SC.POW_FACTS],
    "stubs": ["(N/2)**(1/Jdes) uninterpreted with facts", "scheduler called by the Jdes search -> uninterpreted nf(Jdes)", "MIN_JDES/MAX_JDES overridden (the search logic does not depend on the range)"],
    "assumptions": ["'K >= Kdes where attainable and unclamped' is demanded as K >= the Kdes-level averaging of a segment at most half a sample longer than the ideal one (the integer rounding of L the property grants)"],
}
G = [["C04/K<=N-L+1", "C04/K=nearest*"], ["C04/even-spread"], ["C04/O=*"]]


def encoded_functions():
    import speckit.utils as U, speckit.analysis as A
    return _enc() + [U.find_Jdes_binary_search, U.round_half_up]


def ob_mono_chain(W, sched, seg, split=None):
    return SC.ob_mono_chain(W, sched, seg, split)


def ob_mono_chain_vec(W, seg):
    return SC.ob_mono_chain_vec(W, seg)


def ob_overlap(W, Kn):
    return SC.ob_ltf_overlap(W, Kn)


def ob_search(W, lo, hi, prior=False):
    return SC.ob_search(W, lo, hi, prior)


def ob_plan_forced(W, lo, hi):
    return SC.ob_plan_forced(W, lo, hi)


def obligations(tier):
    obs = []
    to = 30 if tier == "quick" else 300
    b = 12 if tier == "quick" else 24
    for sched in ("ltf", "lpsd"):
        split(obs, "%s/seg-N%d" % (sched, b), "ob_ltf", {"sched": sched, "part": "seg", "bound": b}, G[:2], timeout=60 if tier == "quick" else 900, weight=10)
        split(obs, "%s/seg-generic" % sched, "ob_ltf", {"sched": sched, "part": "seg-generic"}, G[1:2], timeout=to)
        # monotonicity of L and K along a plan: the step map is monotone in the state, proved as a chain cut at the two rounding statements
        for seg in ("A", "B", "C"):
            obs.append({"name": "%s/monotone/%s" % (sched, seg), "fn": "ob_mono_chain", "params": {"sched": sched, "seg": seg}, "timeout": to, "weight": 4})
        if tier == "thorough":
            obs.append({"name": "%s/twostep" % sched, "fn": "ob_ltf", "params": {"sched": sched, "part": "twostep"}, "timeout": 600, "weight": 8})
        obs.append({"name": "%s/regime" % sched, "fn": "ob_ltf", "params": {"sched": sched, "part": "regime"}, "timeout": to, "weight": 4})
        obs.append({"name": "%s/regime-after-prior-plan" % sched, "fn": "ob_ltf", "params": {"sched": sched, "part": "regime", "prior": True}, "timeout": to, "weight": 4, "fork": True, "max_paths": 32})
    split(obs, "vec/step", "ob_vec", {"part": "step"}, G, timeout=to, weight=5)
    for seg in ("A", "B", "C"):
        obs.append({"name": "vec/monotone/%s" % seg, "fn": "ob_mono_chain_vec", "params": {"seg": seg}, "timeout": to, "weight": 4})
    if tier == "thorough":
        obs.append({"name": "vec/twostep", "fn": "ob_vec", "params": {"part": "twostep"}, "timeout": 600, "weight": 8})
    obs.append({"name": "vec/regime", "fn": "ob_vec", "params": {"part": "regime"}, "timeout": to, "weight": 4})
    rng = (100, 107) if tier == "quick" else (100, 131)
    obs.append({"name": "search/range%d" % (rng[1] - rng[0] + 1), "fn": "ob_search", "params": {"lo": rng[0], "hi": rng[1]}, "fork": True, "max_paths": 4000, "timeout": to})
    obs.append({"name": "search/after-another-scheduler", "fn": "ob_search", "params": {"lo": 100, "hi": 103, "prior": True}, "fork": True, "max_paths": 4000, "timeout": to, "limit": 400})
    obs.append({"name": "search/after-same-scheduler-other-clamps", "fn": "ob_search", "params": {"lo": 100, "hi": 103, "prior": "other-args"}, "fork": True, "max_paths": 4000, "timeout": to, "limit": 400})
    obs.append({"name": "forced-nf/plan", "fn": "ob_plan_forced", "params": {"lo": 100, "hi": 103}, "fork": True, "max_paths": 2000, "timeout": to})
    if tier == "thorough":
        split(obs, "new/step", "ob_new", {"part": "step"}, G, timeout=to, weight=5)
    for Kn in (1, 2, 3, 4):
        obs.append({"name": "ltf/overlap-K%d" % Kn, "fn": "ob_overlap", "params": {"Kn": Kn}, "timeout": to})
    whole_plan_obligations(obs, tier, "C04")
    return obs
