"""C19 -- time-domain detrending and RMS integration are exact and mutually consistent."""
import numpy as rnp
import z3

from symx import ctx
from symx.proxy import SR, plain
from symx.shim import NumpyShim, clone, clone_module, oarr, SymNd
from . import result as R

PROPERTY = "C19"
META = {
    "bounds": {"quick": "polynomial_detrend: symbolic series of n<=6 samples, orders 0..3 (and the short-input fallback); index arithmetic of polynomial_detrend on a record of SYMBOLIC length n<=10^6 (generic elements; np.arange(n) is an int64 array whose integer products/powers must not wrap), orders 2..5; RMS: frequency grids of <=5 symbolic strictly increasing points, symbolic non-negative ASD values, symbolic band edges, every membership pattern by forking; additivity at every interior grid point, nesting with symbolic inner/outer bands; get_rms and df_detrend wiring",
               "thorough": "n<=8, orders 0..5"},
    "outside": ["Parseval agreement with the time-domain RMS of broadband data (statistical clause)", "least-squares conditioning of np.polyfit in binary64"],
    "stubs": ["np.polyfit -> coefficients constrained by the normal equations on the concrete abscissae 0..n-1 (least-squares contract); np.polyval -> Horner; np.linalg.lstsq -> coefficients constrained by the normal equations", "scipy cumulative_trapezoid: the library's own code running on object arrays", "integral_rms/polynomial_detrend -> recorders when their callers are the subject"],
    "assumptions": ["ASD values >= 0 and frequencies strictly increasing (what a SpectrumResult holds)"],
}


def encoded_functions():
    import speckit.dsp as D, speckit.analysis as A
    return [D.polynomial_detrend, D.df_detrend, D.integral_rms, D.crop_data, A.SpectrumResult.get_rms]


def polyfit_stub(t, x, deg):
    """least-squares contract: the returned coefficients (highest power first) satisfy the normal equations V^T V c = V^T x"""
    run = ctx.cur()
    t = [int(v) for v in t]
    n = len(t)
    c = [ctx.fresh("polyfit_c") for _ in range(deg + 1)]
    from symx.proxy import toreal, tz
    xs = [toreal(tz(v)) for v in x]
    for i in range(deg + 1):
        lhs = sum(c[j] * sum((tt ** (deg - i)) * (tt ** (deg - j)) for tt in t) for j in range(deg + 1))
        rhs = sum(xs[k] * (t[k] ** (deg - i)) for k in range(n))
        run.side.append(lhs == rhs)
    return oarr([SR(v) for v in c])


def lstsq_stub(A, b, rcond=None):
    """np.linalg.lstsq by its least-squares contract: the returned coefficients satisfy the normal equations A^T A c = A^T b"""
    run = ctx.cur()
    from symx.proxy import toreal, tz
    A = rnp.asarray(A, dtype=object)
    n, m = A.shape
    c = [ctx.fresh("lstsq_c") for _ in range(m)]
    bs = [toreal(tz(plain(v))) for v in b]
    At = [[toreal(tz(plain(A[k, i]))) for k in range(n)] for i in range(m)]
    for i in range(m):
        lhs = sum(c[j] * sum(At[i][k] * At[j][k] for k in range(n)) for j in range(m))
        rhs = sum(bs[k] * At[i][k] for k in range(n))
        run.side.append(lhs == rhs)
    return oarr([SR(v) for v in c]), oarr([]), m, None


def polyval_stub(c, t):
    out = []
    for tt in t:
        acc = 0
        for cj in c:
            acc = acc * int(tt) + cj
        out.append(acc)
    return oarr(out)


def _detrend(W, x, order):
    import speckit.dsp as D
    if W.sym:
        f = clone_module(D, dict(np=NumpyShim(polyfit=polyfit_stub, polyval=polyval_stub, linalg_lstsq=lstsq_stub)))["polynomial_detrend"]
        return f(x, order)
    return D.polynomial_detrend(rnp.asarray(x, dtype=float), order)


def ob_detrend(W, n, order):
    x = W.reals("x", n)
    r = _detrend(W, x, order)
    W.goal("length", len(r) == n)
    p = min(order, n - 1)
    for k in range(p + 1):
        W.goal("orthogonal to t^%d" % k, W.eq(sum(r[i] * (i ** k) for i in range(n)), 0))
    if order == 0:
        m = sum(x[i] for i in range(n)) / n
        W.goal("order0=mean removal", W.And(*[W.eq(r[i], x[i] - m) for i in range(n)]))
    if n <= order:
        W.goal("short-input fallback gives zero residual", W.And(*[W.eq(r[i], 0) for i in range(n)]))
    r2 = _detrend(W, r, order)
    W.goal("idempotent", W.And(*[W.eq(r2[i], r[i]) for i in range(n)]))


def ob_detrend_poly(W, n, order):
    a = [W.real("a%d" % j) for j in range(order + 1)]
    xs = [sum(a[j] * (i ** j) for j in range(order + 1)) for i in range(n)]
    x = oarr(xs) if W.sym else rnp.array(xs, dtype=float)
    r = _detrend(W, x, order)
    W.goal("polynomial of degree<=order -> 0", W.And(*[W.eq(r[i], 0) for i in range(n)]))
    # and nothing else is removed: adding a polynomial to any series changes the residual by nothing
    y = W.reals("y", n)
    r1 = _detrend(W, y, order); r2 = _detrend(W, y + x, order)
    W.goal("residual unchanged by an added polynomial", W.And(*[W.eq(r1[i], r2[i]) for i in range(n)]))


NMAX = 10 ** 6


class _GenRecord(rnp.ndarray):
    """a record of SYMBOLIC length n, represented by its generic elements [x_0, x_m, x_{m+1}, x_{n-1}] (the layout np.arange(n)
    gets for a symbolic n); len() of it is the symbolic n inside the cloned code"""
    _symlen = None

    def __array_finalize__(self, obj):
        self._symlen = getattr(obj, "_symlen", None)


def ob_detrend_index_range(W, order):
    """integer index arithmetic of polynomial_detrend stays inside int64 for every record length up to NMAX samples (np.arange(n) is an
    int64 array: powers and products of it computed in integers wrap silently; the symbolic runs above have n <= 8)"""
    import speckit.dsp as D
    n = W.int("n", lo=order + 2, hi=NMAX)
    if not W.sym:
        nn = int(n)
        t = rnp.arange(nn) / nn
        x = t ** order + 0.5
        r = D.polynomial_detrend(x, order)
        ok = float(rnp.max(rnp.abs(r))) <= 1e-6
        W.resolver = lambda name: ok
        W.goal("long record: polynomial of degree<=order -> 0", ok, n=nn, residual=float(rnp.max(rnp.abs(r))))
        return
    xs = oarr([W.real("x_first"), W.real("x_m"), W.real("x_m1"), W.real("x_last")])
    x = xs.view(_GenRecord)
    x._symlen = n
    coeff_stub = lambda t, y, deg, **k: oarr([SR(ctx.fresh("polyfit_c")) for _ in range(int(deg) + 1)])

    def lstsq_free(A, b, rcond=None):
        m = rnp.asarray(A, dtype=object).shape[1]
        return oarr([SR(ctx.fresh("lstsq_c")) for _ in range(m)]), oarr([]), m, None
    NP = NumpyShim(polyfit=coeff_stub, polyval=polyval_stub, linalg_lstsq=lstsq_free, asarray=lambda a, dtype=None, **k: a)
    G = clone_module(D, dict(np=NP), builtins_extra={"len": (lambda o: o._symlen if getattr(o, "_symlen", None) is not None else len(o))})
    try:
        G["polynomial_detrend"](x, order)
    except Exception as e:
        W.note("run ended after the index arithmetic was recorded (%s: %s)" % (type(e).__name__, str(e)[:100]))
    W.vc_goals("index arithmetic within int64 for n<=%d" % NMAX, kinds=("int64",))
    W.goal("reached", True)


def ob_df_detrend(W, inplace, order):
    import pandas as pd, speckit.dsp as D
    calls = []

    def rec(x, order=1):
        calls.append((rnp.asarray(x).copy(), order))
        return rnp.asarray(x, dtype=float) * 0 + len(calls)
    df = pd.DataFrame({"a": [1.0, 2.0, 4.0], "b": [3, 1, 2], "s": ["x", "y", "z"], "c": [9.0, 8.0, 7.0]})
    before = df.copy(deep=True)
    if W.sym:
        out = clone_module(D, dict(np=NumpyShim(), polynomial_detrend=rec))["df_detrend"](df, columns=["b", "s", "a"], order=order, inplace=inplace)
    else:
        old = D.polynomial_detrend
        D.polynomial_detrend = rec
        try:
            out = D.df_detrend(df, columns=["b", "s", "a"], order=order, inplace=inplace)
        finally:
            D.polynomial_detrend = old
    W.goal("once per selected numeric column", len(calls) == 2)
    if len(calls) == 2:
        W.goal("column values and order", rnp.array_equal(calls[0][0], before["b"].values) and rnp.array_equal(calls[1][0], before["a"].values) and calls[0][1] == order and calls[1][1] == order)
    tgt = (lambda c: c) if inplace else (lambda c: c + "_detrended")
    W.goal("stored", list(out[tgt("b")]) == [1.0] * 3 and list(out[tgt("a")]) == [2.0] * 3)
    W.goal("others untouched", before.equals(df) and out["c"].equals(before["c"]) and out["s"].equals(before["s"]))


def _grid(W, n):
    f = [W.real("f%d" % i) for i in range(n)]
    a = [W.real("asd%d" % i, lo=0) for i in range(n)]
    if W.sym:
        W.assume(f[0] >= 0)
        for i in range(n - 1):
            W.assume(f[i] < f[i + 1])
    ok = W.sym or (f[0] >= 0 and all(f[i] < f[i + 1] for i in range(n - 1)))
    mk = oarr if W.sym else (lambda v: rnp.array(v, dtype=float))
    return f, a, mk, ok


def _rms(W, f, a, mk, band):
    import speckit.dsp as D
    if W.sym:
        W.run.concrete_masks = True
        G = clone_module(D, dict(np=NumpyShim()))
        return G["integral_rms"](mk(f), mk(a), band)
    return D.integral_rms(mk(f), mk(a), band)


def _trapz2(W, f, a, lo, hi):
    """sum over consecutive grid points inside [lo,hi] of 1/2 (a_i^2+a_{i+1}^2)(f_{i+1}-f_i); membership decided per path"""
    inside = [bool(W.And(W.ge(f[i], lo), W.le(f[i], hi))) if W.sym else (lo <= f[i] <= hi) for i in range(len(f))]
    tot = 0
    for i in range(len(f) - 1):
        if inside[i] and inside[i + 1]:
            tot = tot + (a[i] * a[i] + a[i + 1] * a[i + 1]) * (f[i + 1] - f[i]) / 2
    return tot, inside


def ob_rms_band(W, n):
    f, a, mk, ok = _grid(W, n)
    lo, hi = W.real("lo"), W.real("hi")
    if W.sym:
        W.assume(lo <= hi)
    if not ok or not (W.sym or lo <= hi):
        return
    got = _rms(W, f, a, mk, (lo, hi))
    ref, inside = _trapz2(W, f, a, lo, hi)
    W.goal("rms^2=trapezoid over in-band points", W.eq(got * got, ref), inside=inside)
    W.goal("rms>=0", W.ge(got, 0))
    if sum(inside) <= 1:
        W.goal("empty or single-point band -> 0", W.eq(got, 0))


def ob_rms_full(W, n):
    f, a, mk, ok = _grid(W, n)
    if not ok:
        return
    got = _rms(W, f, a, mk, None)
    ref = sum((a[i] * a[i] + a[i + 1] * a[i + 1]) * (f[i + 1] - f[i]) / 2 for i in range(n - 1))
    W.goal("full band = whole grid", W.eq(got * got, ref))


def ob_rms_additive(W, n, k):
    f, a, mk, ok = _grid(W, n)
    fa, fc = W.real("fa"), W.real("fc")
    fb = f[k]
    if W.sym:
        W.assume(fa <= fb); W.assume(fb <= fc)
    if not ok or not (W.sym or fa <= fb <= fc):
        return
    r_ab, r_bc, r_ac = _rms(W, f, a, mk, (fa, fb)), _rms(W, f, a, mk, (fb, fc)), _rms(W, f, a, mk, (fa, fc))
    W.goal("power additive over adjacent bands meeting at a grid point", W.eq(r_ac * r_ac, r_ab * r_ab + r_bc * r_bc))


def ob_rms_nested(W, n):
    f, a, mk, ok = _grid(W, n)
    lo, hi, li, hj = W.real("lo"), W.real("hi"), W.real("ilo"), W.real("ihi")
    if W.sym:
        W.assume(lo <= li); W.assume(li <= hj); W.assume(hj <= hi)
    if not ok or not (W.sym or lo <= li <= hj <= hi):
        return
    r_out, r_in = _rms(W, f, a, mk, (lo, hi)), _rms(W, f, a, mk, (li, hj))
    W.goal("nested band not larger", W.le(r_in, r_out))


def ob_get_rms(W, reversed_band):
    """SpectrumResult.get_rms(band) is the band RMS of its own ASD (reversed band edges are reordered); value-based:
    any implementation that returns the trapezoidal integral of psd over the in-band grid points passes"""
    bins = [R.bin_inputs(W, str(j), cross=False, pos=True) for j in range(3)]
    fs = W.real("fs"); p, q = W.real("p"), W.real("q")
    fv = [b["f"] for b in bins]
    if W.sym:
        W.assume(fs > 0); W.assume(fv[0] < fv[1]); W.assume(fv[1] < fv[2]); W.assume(p <= q)
    elif not (fs > 0 and fv[0] < fv[1] < fv[2] and p <= q):
        return
    r = R.mk(W, bins, False, fs)
    band = (q, p) if reversed_band else (p, q)
    import speckit.analysis as A, speckit.dsp as D
    if W.sym:
        W.run.concrete_masks = True
        GD = clone_module(D, dict(np=NumpyShim()))
        # the result object is an instance of the fully cloned SpectrumResult: point its module namespace at the cloned dsp code
        _g = next(v.__globals__ for v in vars(type(r)).values() if hasattr(v, "__globals__"))
        _g["integral_rms"] = GD["integral_rms"]
        out = r.get_rms(band)
    else:
        out = r.get_rms(band)
    psd = [R.el(r.psd, i) for i in range(3)]
    inside = [bool(W.And(W.ge(fv[i], p), W.le(fv[i], q))) if W.sym else (p <= fv[i] <= q) for i in range(3)]
    ref = 0
    for i in range(2):
        if inside[i] and inside[i + 1]:
            ref = ref + (psd[i] + psd[i + 1]) * (fv[i + 1] - fv[i]) / 2
    W.goal("get_rms^2 = trapezoid of psd over the in-band points", W.eq(out * out, ref), inside=inside)
    full = r.get_rms(None)
    W.goal("get_rms(None) = full band", W.eq(full * full, sum((psd[i] + psd[i + 1]) * (fv[i + 1] - fv[i]) / 2 for i in range(2))))


def obligations(tier):
    obs = []
    nmax, omax = (6, 3) if tier == "quick" else (8, 5)
    for n in range(1, nmax + 1):
        for order in range(0, omax + 1):
            if tier == "quick" and n in (3, 5) and order in (1, 3):
                continue
            obs.append({"name": "detrend/n%d/order%d" % (n, order), "fn": "ob_detrend", "params": {"n": n, "order": order}, "fork": True, "max_paths": 8, "weight": n * (order + 1)})
            if n > order:
                obs.append({"name": "detrend-poly/n%d/order%d" % (n, order), "fn": "ob_detrend_poly", "params": {"n": n, "order": order}, "fork": True, "max_paths": 8, "weight": n * (order + 1)})
    for order in (2, 3, 4, 5):
        obs.append({"name": "detrend-long-record/order%d" % order, "fn": "ob_detrend_index_range", "params": {"order": order}, "vacuity": False, "weight": 2})
    for inplace in (False, True):
        obs.append({"name": "df_detrend/%s" % ("inplace" if inplace else "suffix"), "fn": "ob_df_detrend", "params": {"inplace": inplace, "order": 2}, "vacuity": False})
    for n in ((2, 3, 4, 5) if tier == "quick" else (1, 2, 3, 4, 5, 6)):
        obs.append({"name": "rms/band/n%d" % n, "fn": "ob_rms_band", "params": {"n": n}, "fork": True, "max_paths": 3000, "weight": 2 ** n})
        obs.append({"name": "rms/full/n%d" % n, "fn": "ob_rms_full", "params": {"n": n}, "fork": True, "max_paths": 100})
    for n, k in ((3, 1), (4, 1), (4, 2)) + (((5, 2), (5, 3)) if tier == "thorough" else ()):
        obs.append({"name": "rms/additive/n%d/k%d" % (n, k), "fn": "ob_rms_additive", "params": {"n": n, "k": k}, "fork": True, "max_paths": 6000, "weight": 40})
    for n in ((3, 4) if tier == "quick" else (3, 4, 5)):
        obs.append({"name": "rms/nested/n%d" % n, "fn": "ob_rms_nested", "params": {"n": n}, "fork": True, "max_paths": 6000, "weight": 40})
    for rv_ in (False, True):
        obs.append({"name": "get_rms/%s" % ("reversed" if rv_ else "ordered"), "fn": "ob_get_rms", "params": {"reversed_band": rv_}, "fork": True, "max_paths": 400})
    return obs
