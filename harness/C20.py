"""C20 -- derived result quantities and exports are consistent views of one estimate."""
import math
from fractions import Fraction as F
import numpy as rnp
from . import result as R

PROPERTY = "C20"
META = {
    "bounds": "attribute algebra: one generic bin, all statistics symbolic (XX,YY>=0 incl. 0, any complex XY, S2,S12,fs>0, f>=0, n>=1); interpolation: 3 bins with symbolic strictly increasing f and symbolic values, symbolic query; export: nf<=3 with every pattern of per-bin segment counts K in {1,2,3} (all-equal included) and single-bin results; copy/pickle protocol: every subset of missing instance attributes x 14 probe names, recursion bound 40",
    "outside": ["pandas / pickle / copy internals (contract: DataFrame needs 1-D columns of equal length; copy and pickle create a bare instance, probe dunder names, then restore __dict__)", "np.unwrap is encoded by its documented algorithm (1-D); atan2 by range and quadrant facts only"],
    "stubs": ["np.interp -> clamp + piecewise linear (documented)", "log10, atan2 -> uninterpreted functions (same application on both sides)", "pd.DataFrame -> recorder of the column dict"],
    "assumptions": [],
}


def encoded_functions():
    import speckit.analysis as A
    return R.encoded() + [A.SpectrumResult.get_measurement, A.SpectrumResult.to_dataframe]


def _mk(W, cross, pos=False):
    b = R.bin_inputs(W, cross=cross, pos=pos, psd_cs=False)
    fs = W.real("fs")
    if W.sym:
        W.assume(fs > 0)
    return b, fs, R.mk(W, [b], cross, fs)


def _conj(z):
    return z.conjugate()


def ob_cross_views(W):
    b, fs, r = _mk(W, True)
    XX, YY, XY, S2, S12 = b["XX"], b["YY"], b["XY"], b["S2"], b["S12"]
    e = R.el
    # documented base estimates
    W.goal("base/Gxx", W.eq(e(r.Gxx), 2 * XX / (fs * S2)))
    W.goal("base/Gyy", W.eq(e(r.Gyy), 2 * YY / (fs * S2)))
    W.goal("base/Gxy", W.eq(e(r.Gxy), XY * 2 / (fs * S2)))
    W.goal("base/ENBW", W.eq(e(r.ENBW), fs * S2 / S12))
    W.goal("csd=Gxy", W.eq(e(r.csd), e(r.Gxy)))
    W.goal("cs=csd*ENBW", W.eq(e(r.cs), e(r.csd) * e(r.ENBW)))
    W.goal("Gyx=conj(Gxy)", W.eq(e(r.Gyx), _conj(e(r.Gxy))))
    W.goal("Hyx=conj(Hxy)", W.eq(e(r.Hyx), _conj(e(r.Hxy))))
    W.goal("tf=Hxy", W.eq(e(r.tf), e(r.Hxy)))
    H = e(r.Hxy)
    W.goal("cf=|Hxy|", W.eq(e(r.cf) * e(r.cf), H.real * H.real + H.imag * H.imag))
    W.goal("cf>=0", W.ge(e(r.cf), 0))
    W.goal("Hxy*XX=conj(XY)", W.Or(W.eq(XX, 0), W.eq(H * XX, _conj(XY))))
    W.goal("Hxy=0 when XX=0", W.Or(W.ne(XX, 0), W.eq(H, 0)))
    for k in ("psd", "asd", "ps", "G", "Gxx_emp_dev"):
        W.goal("None/" + k, getattr(r, k) is None)
    W.goal("XX_mean", W.eq(e(r.XX_mean), XX))
    W.goal("YY_mean", W.eq(e(r.YY_mean), YY))
    W.goal("XY_M2", W.eq(e(r.XY_M2), b["M2"]))
    W.vc_goals("definedness")


def ob_cross_phase(W):
    b, fs, r = _mk(W, True, pos=True)
    e = R.el
    H = e(r.Hxy)
    if W.sym:
        from symx import ctx
        from symx.proxy import SR
        W.goal("cf_rad=atan2", W.eq(e(r.cf_rad), ctx.ufun("atan2", (H.im, H.re))))
        W.goal("cf_db=20log10(cf)", W.eq(e(r.cf_db), ctx.ufun("log10", e(r.cf)) * 20))
    else:
        W.goal("cf_rad=atan2", W.eq(e(r.cf_rad), math.atan2(H.imag, H.real)))
        W.goal("cf_db=20log10(cf)", W.eq(e(r.cf_db), 20 * math.log10(e(r.cf))) if e(r.cf) > 0 else True)
    pi = R.PI if W.sym else float(R.PI)
    W.goal("cf_deg*pi=cf_rad*180", W.eq(e(r.cf_deg) * pi, e(r.cf_rad) * 180))
    W.goal("unwrapped[0]", W.eq(e(r.cf_rad_unwrapped), e(r.cf_rad)))
    W.goal("deg_unwrapped", W.eq(e(r.cf_deg_unwrapped) * pi, e(r.cf_rad_unwrapped) * 180))


def ob_phase_unwrap(W, nb):
    """several bins: the unwrapped degree phase is the unwrapped radian phase times 180/pi at every bin (np.unwrap by its documented
    algorithm; atan2 uninterpreted with its range and quadrant facts, so the solver can place a +-180 degree crossing between bins)"""
    bins = [R.bin_inputs(W, str(j), cross=True, pos=True, psd_cs=False) for j in range(nb)]
    fs = W.real("fs")
    if W.sym:
        W.assume(fs > 0)
    elif not fs > 0:
        return
    r = R.mk(W, bins, True, fs)
    ru, du, rr = r.cf_rad_unwrapped, r.cf_deg_unwrapped, r.cf_rad
    R.add_fun_facts(W)
    pi = R.PI if W.sym else float(R.PI)
    e = R.el
    W.goal("unwrapped[0]=wrapped[0]", W.eq(e(ru, 0), e(rr, 0)))
    # the wrapped views read AFTER the unwrapped ones are still the wrapped phase (what a fresh result gives, inside [-pi, pi])
    r0 = R.mk(W, bins, True, fs)
    rr0, dd0, dd = r0.cf_rad, r0.cf_deg, r.cf_deg
    for i in range(nb):
        W.goal("cf_rad[%d] read after the unwrapped views = cf_rad of a fresh result" % i, W.eq(e(rr, i), e(rr0, i)))
        W.goal("cf_deg[%d] read after the unwrapped views = cf_deg of a fresh result" % i, W.eq(e(dd, i), e(dd0, i)))
        W.goal("cf_rad[%d] stays within [-pi, pi]" % i, W.And(W.le(e(rr, i), pi), W.ge(e(rr, i), -pi)))
    for i in range(nb):
        W.goal("deg_unwrapped[%d]*pi = rad_unwrapped[%d]*180" % (i, i), W.eq(e(du, i) * pi, e(ru, i) * 180))
    for i in range(1, nb):
        d = e(ru, i) - e(ru, i - 1)
        W.goal("unwrapped phase steps by at most pi [%d]" % i, W.And(W.le(d, pi), W.ge(d, -pi)))


def ob_auto_views(W):
    b, fs, r = _mk(W, False)
    e = R.el
    XX, S2, S12 = b["XX"], b["S2"], b["S12"]
    W.goal("psd=Gxx", W.eq(e(r.psd), 2 * XX / (fs * S2)))
    W.goal("G=psd", W.eq(e(r.G), e(r.psd)))
    W.goal("asd^2=psd", W.eq(e(r.asd) * e(r.asd), e(r.psd)))
    W.goal("asd>=0", W.ge(e(r.asd), 0))
    W.goal("ps=psd*ENBW", W.eq(e(r.ps), e(r.psd) * (fs * S2 / S12)))
    W.goal("Gyy=Gxx", W.eq(e(r.Gyy), e(r.Gxx)))
    W.goal("Gxy=Gxx", W.eq(e(r.Gxy), e(r.Gxx)))
    for k in ("csd", "Gyx", "Hxy", "Hyx", "coh", "ccoh", "cs", "tf", "cf", "cf_db", "cf_rad", "cf_deg", "cf_rad_unwrapped",
              "cf_deg_unwrapped", "GyyCx", "GyyRx", "GyySx", "Gxy_emp_dev", "Hxy_dev", "Gxy_dev", "coh_dev"):
        W.goal("None/" + k, getattr(r, k) is None)
    W.goal("YY_mean=XX", W.eq(e(r.YY_mean), XX))


def ob_unknown_names(W):
    b, fs, r = _mk(W, True)
    for nm in ("foo", "gxx", "Gxz", "psd_", "coh2", "_private", "XYZ"):
        try:
            getattr(r, nm)
            ok = False
        except AttributeError:
            ok = True
        W.goal("AttributeError/" + nm, ok)
    # stored plan/statistic arrays are reachable by name
    W.goal("data/XX", W.eq(R.el(r.XX), b["XX"]))
    W.goal("data/navg", W.eq(R.el(r.navg), b["navg"]))


def ob_measurement(W, which, cross):
    bins = [R.bin_inputs(W, str(j), cross=cross, pos=True, psd_cs=False) for j in range(3)]
    fs = W.real("fs")
    fq = W.real("fq")
    f = [b["f"] for b in bins]
    if W.sym:
        W.assume(fs > 0)
        W.assume(f[0] < f[1]); W.assume(f[1] < f[2])
    elif not (f[0] < f[1] < f[2]):
        return
    r = R.mk(W, bins, cross, fs)
    tab = getattr(r, which)
    t = [R.el(tab, i) for i in range(3)]
    # at grid frequencies
    for i in range(3):
        W.goal("grid%d" % i, W.eq(r.get_measurement(f[i], which), t[i]))
    # between f0 and f1: linear, real and imaginary parts separately
    got = r.get_measurement(fq, which)
    lam = (fq - f[0]) / (f[1] - f[0])
    lin = t[0] + (t[1] - t[0]) * lam
    W.goal("linear01", W.Implies(W.And(W.ge(fq, f[0]), W.le(fq, f[1])), W.eq(got, lin)) if W.sym else ((not (f[0] <= fq <= f[1])) or W.eq(got, lin)))
    W.goal("clamp-low", W.Implies(W.le(fq, f[0]), W.eq(got, t[0])) if W.sym else ((not fq <= f[0]) or W.eq(got, t[0])))
    W.goal("clamp-high", W.Implies(W.ge(fq, f[2]), W.eq(got, t[2])) if W.sym else ((not fq >= f[2]) or W.eq(got, t[2])))
    # scalar in -> scalar out; array in -> array out
    W.goal("scalar-out", not isinstance(got, rnp.ndarray) or got.shape == ())
    arr_out = r.get_measurement(rnp.array([1.0, 2.0]), which) if not W.sym else r.get_measurement(R.oarr([f[0], f[2]]), which)
    W.goal("array-out", isinstance(arr_out, rnp.ndarray) and arr_out.shape == (2,))


class _PdRecorder:
    def __init__(self):
        self.cols = None

    def DataFrame(self, d, *a, copy=None, **kw):
        # pandas builds a frame from a dict of arrays by copying them unless copy=False is requested (then columns may alias the inputs)
        self.copy_flag = copy
        self.cols = d if copy is False else {k: (v.copy() if isinstance(v, rnp.ndarray) else v) for k, v in d.items()}
        return self

    def set_index(self, k):
        return self


def ob_export(W, Ks, cross, single):
    """columns handed to pandas are exactly the per-bin arrays, each 1-D of length nf"""
    nf = len(Ks)
    bins = [R.bin_inputs(W, str(j), cross=cross, pos=True) for j in range(nf)]
    fs = W.real("fs")
    if W.sym:
        W.assume(fs > 0)
    D = [rnp.arange(k, dtype=rnp.int64) * 2 for k in Ks]
    extra = {"D": (rnp.array([D[0]], dtype=object) if single else list(D)), "L": rnp.array([4] * nf), "K": rnp.array(list(Ks))}
    r = R.mk(W, bins, cross, fs, extra=extra)
    if W.sym:
        import speckit.analysis as A
        from symx.shim import clone, NumpyShim
        rec = _PdRecorder()
        _g = next(v.__globals__ for v in vars(type(r)).values() if hasattr(v, "__globals__"))
        _old = _g.get("pd")
        _g["pd"] = rec
        try:
            r.to_dataframe()
        finally:
            _g["pd"] = _old
        cols = rec.cols
        # the export is a snapshot: editing the exported frame in place leaves the result untouched
        probe = "Gxx"
        before = R.el(getattr(r, probe), 0)
        if isinstance(cols.get(probe), rnp.ndarray) and cols[probe].shape[0] == nf:
            cols[probe][0] = cols[probe][0] * 2 + 1
        W.goal("export-is-a-snapshot", W.eq(R.el(getattr(r, probe), 0), before))
        ok1d = all(isinstance(v, rnp.ndarray) and v.ndim == 1 and v.shape[0] == nf for v in cols.values())
        bad = [k for k, v in cols.items() if not (isinstance(v, rnp.ndarray) and v.ndim == 1 and v.shape[0] == nf)]
        W.goal("columns-1d", ok1d, bad=bad)
        names = set(cols)
    else:
        try:
            df = r.to_dataframe()
            names = set(df.columns) | {"f"}
            W.goal("columns-1d", df.shape[0] == nf)
            before = float(r.Gxx[0])
            try:
                df.loc[:, "Gxx"] *= 2.0
                df.iloc[0, list(df.columns).index("Gxx")] += 1.0
            except Exception:
                pass
            W.goal("export-is-a-snapshot", W.eq(float(r.Gxx[0]), before))
        except Exception as ex:
            W.goal("columns-1d", False, raised=repr(ex)[:200])
            names = set()
    must = {"f", "Gxx", "Gyy", "Gxy", "ENBW", "XX", "YY", "XY", "S2", "S12", "M2", "navg", "D", "L", "K", "Gxx_dev", "Gxx_error", "XX_mean", "XY_emp_var"}
    must |= ({"csd", "coh", "Hxy", "cf", "cf_deg", "GyySx", "coh_dev", "Gxy_emp_dev"} if cross else {"psd", "asd", "ps", "Gxx_emp_dev"})
    W.goal("columns-complete", must <= names, missing=sorted(must - names))
    D_attr = r.D
    W.goal("D-1d-object", isinstance(D_attr, rnp.ndarray) and D_attr.ndim == 1 and D_attr.shape[0] == nf and all(list(D_attr[i]) == list(D[i]) for i in range(nf)))


PROBES = ("__setstate__", "__getstate__", "__deepcopy__", "__copy__", "__reduce_ex__", "__reduce__", "__getnewargs_ex__", "__getnewargs__",
          "_cache", "_data", "_config", "__array_struct__", "Gxx", "nosuch")


def ob_protocol(W, missing):
    """__getattr__ on an instance whose attribute dictionary lacks `missing` terminates (value or AttributeError)"""
    import sys
    b, fs, r = _mk(W, True, pos=True)
    for m in missing:
        r.__dict__.pop(m, None)
    for nm in PROBES:
        depth = [0]
        lim = sys.getrecursionlimit()
        sys.setrecursionlimit(120)
        try:
            try:
                getattr(r, nm)
                out = "value"
            except AttributeError:
                out = "AttributeError"
            except RecursionError:
                out = "RecursionError"
            except Exception as ex:
                out = type(ex).__name__
        finally:
            sys.setrecursionlimit(lim)
        W.goal("terminates/%s" % nm, out in ("value", "AttributeError"), outcome=out)


def ob_roundtrip(W):
    """copy / deepcopy / pickle keep every value (decided on the real class with the model's numbers; symbolic world: the
    default __dict__ protocol is a contract, so only the terminating __getattr__ (ob_protocol) is encoded)"""
    b, fs, r = _mk(W, True, pos=True)
    if W.sym:
        W.goal("contract-only", True)
        return
    import copy, pickle
    _ = r.coh, r.Gxy
    for nm, f in (("copy", copy.copy), ("deepcopy", copy.deepcopy), ("pickle", lambda o: pickle.loads(pickle.dumps(o)))):
        try:
            r2 = f(r)
            ok = all(rnp.allclose(getattr(r2, k), getattr(r, k), equal_nan=True) for k in ("Gxx", "Gyy", "Gxy", "coh", "Hxy", "ENBW", "Gxy_dev"))
        except RecursionError:
            ok = False
        W.goal("roundtrip/" + nm, ok)


def _proto(how):
    """the object-copy protocols as the standard library runs them (copy.copy / copy.deepcopy are the real functions, also on
    symbolic instances; a pickle round trip is the same __reduce_ex__ protocol with every container rebuilt = deepcopy at pickle's
    protocol number; the byte-level serialisation of leaves is pickle's business)"""
    import copy, pickle
    if how == "copy":
        return copy.copy
    if how == "deepcopy":
        return copy.deepcopy
    if how == "pickle":
        return lambda o: pickle.loads(pickle.dumps(o))
    if how == "pickle-protocol":
        return lambda o: copy._reconstruct(o, {}, *o.__reduce_ex__(pickle.HIGHEST_PROTOCOL))
    raise ValueError(how)


def ob_roundtrip_history(W, how, first):
    """two different results copied / unpickled in the same process: each copy returns ITS OWN values, whichever attribute was
    read first on the other copy (nothing is shared through the class or the module)"""
    bins1 = [R.bin_inputs(W, "a", cross=True, pos=True, psd_cs=False)]
    bins2 = [R.bin_inputs(W, "b%d" % j, cross=True, pos=True, psd_cs=False) for j in range(2)]
    fs = W.real("fs")
    if W.sym:
        W.assume(fs > 0)
    elif not fs > 0:
        return
    r1, r2 = R.mk(W, bins1, True, fs), R.mk(W, bins2, True, fs)
    f = _proto(how if not (W.sym and how == "pickle") else "pickle-protocol")
    if first == "orig":
        _ = r1.Gxx, r1.coh, r2.Gxx             # the originals had attributes evaluated before being copied
    c1, c2 = f(r1), f(r2)
    names = ("Gxx", "Gxy", "coh", "ENBW", "navg", "f")
    for nm in names:
        v1 = getattr(c1, nm)
        v2 = getattr(c2, nm)
        o1, o2 = getattr(r1, nm), getattr(r2, nm)
        W.goal("copy of result 1: %s" % nm, len(v1) == 1 and bool(W.eq(R.el(v1, 0), R.el(o1, 0))) if not W.sym else (len(v1) == 1 and W.eq(R.el(v1, 0), R.el(o1, 0))))
        if W.sym:
            W.goal("copy of result 2: %s" % nm, len(v2) == 2 and W.And(W.eq(R.el(v2, 0), R.el(o2, 0)), W.eq(R.el(v2, 1), R.el(o2, 1))))
        else:
            W.goal("copy of result 2: %s" % nm, len(v2) == 2 and bool(W.eq(R.el(v2, 0), R.el(o2, 0))) and bool(W.eq(R.el(v2, 1), R.el(o2, 1))))
    W.goal("copies keep their type flags", c1.iscsd is True and c2.iscsd is True)


def obligations(tier):
    to = 30 if tier == "quick" else 120
    obs = [{"name": n, "fn": n, "params": {}, "timeout": to} for n in ("ob_cross_views", "ob_cross_phase", "ob_auto_views", "ob_unknown_names", "ob_roundtrip")]
    for how in ("copy", "deepcopy", "pickle"):
        for first in ("fresh", "orig"):
            obs.append({"name": "ob_roundtrip_history/%s/%s" % (how, first), "fn": "ob_roundtrip_history", "params": {"how": how, "first": first}, "timeout": to, "weight": 4})
    for nb in ((2, 3) if tier == "quick" else (2, 3, 4)):
        obs.append({"name": "ob_phase_unwrap/bins%d" % nb, "fn": "ob_phase_unwrap", "params": {"nb": nb}, "timeout": to, "weight": 4 * nb})
    meas = [("Gxy", True), ("coh", True), ("asd", False)] if tier == "quick" else [("Gxy", True), ("coh", True), ("Hxy", True), ("Gxx", True), ("asd", False), ("psd", False), ("cs", True)]
    for which, cross in meas:
        obs.append({"name": "ob_measurement/%s" % which, "fn": "ob_measurement", "params": {"which": which, "cross": cross}, "timeout": to, "fork": True, "max_paths": 200})
    pats = [(1,), (2,), (2, 2), (1, 2), (3, 3, 3), (2, 3, 2)] + ([(1, 1), (3, 3), (1, 1, 1), (2, 2, 3)] if tier == "thorough" else [])
    for Ks in pats:
        for cross in (True, False):
            obs.append({"name": "ob_export/K%s/%s" % ("-".join(map(str, Ks)), "csd" if cross else "auto"), "fn": "ob_export", "params": {"Ks": list(Ks), "cross": cross, "single": False}, "timeout": to})
    for cross in (True, False):
        obs.append({"name": "ob_export/single/%s" % ("csd" if cross else "auto"), "fn": "ob_export", "params": {"Ks": [3], "cross": cross, "single": True}, "timeout": to})
    import itertools
    attrs = ("_cache", "_data", "_config", "iscsd", "fs")
    subsets = [()] + [(a,) for a in attrs] + [attrs, ("_cache", "_data")]
    if tier == "thorough":
        subsets = [c for k in range(len(attrs) + 1) for c in itertools.combinations(attrs, k)]
    for sub in subsets:
        obs.append({"name": "ob_protocol/missing_%s" % ("+".join(sub) or "none"), "fn": "ob_protocol", "params": {"missing": list(sub)}, "timeout": to, "vacuity": False})
    return obs
