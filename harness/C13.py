"""C13 -- inputs are handled robustly: sanitised, never modified, layout-independent."""
import numpy as rnp
import z3

from symx import ctx
from symx.proxy import SR, SB, ite, plain
from symx.shim import NumpyShim, clone_module, oarr, SymNd
from . import result as R, kernels as K

PROPERTY = "C13"
META = {
    "bounds": {"quick": "constructor: records of N=3 samples per channel, every sample carries a symbolic finiteness flag and a symbolic value; 10 layouts (1-D float64 contiguous / float32 / strided view / list; 2xN C-order, Nx2 C-order, Nx2 Fortran-order (= transposed 2xN), 2xN Fortran-order, list of two arrays, Nx2 float32); results stay finite whatever the kernels return: compute() with kernel stand-ins returning (finite?, value) statistics with symbolic flags on a 2-bin plan (3 order/mode/backend combinations); buffers never written: 18 kernels at K=1 and K=2 (back-to-back and overlapping segments); definedness: every division / sqrt executed for the density, coherence, transfer-function and error attributes on a generic bin including all-zero statistics",
               "thorough": "N=4, kernels additionally at L=4"},
    "outside": ["IEEE overflow/underflow for huge finite inputs (reals are exact here)", "the copy/alias rules of numpy are modelled (asarray: no copy for an ndarray; ascontiguousarray: no copy iff dtype and C-contiguity already match; views share memory -- the latter is numpy's own behaviour on the object arrays used) and cross-checked against real numpy on the same layouts on every run"],
    "stubs": ["np.isfinite / np.nan_to_num on (flag, value) samples", "np.asarray / np.ascontiguousarray with the copy rule above"],
    "assumptions": ["S2, S12 > 0 (a window that is not identically zero)"],
}


def encoded_functions():
    import speckit.analysis as A
    return [A.SpectrumAnalyzer.__init__, A.SpectrumResult.__getattr__] + K.all_encoded()


class FV:
    """one input sample: finite? / value"""
    __slots__ = ("fin", "val", "tag")

    def __init__(self, fin, val, tag):
        self.fin, self.val, self.tag = fin, val, tag

    # arithmetic / comparisons on a raw sample use its value (an arbitrary number when the sample is not finite)
    def _v(self):
        return _fv_as_value(self)

    _symx_value = _v

    def _symx_float(self):
        return self            # float(sample) keeps the sample (its finiteness flag travels with it)

    def __add__(self, o): return self._v() + (o._v() if isinstance(o, FV) else o)
    __radd__ = __add__
    def __sub__(self, o): return self._v() - (o._v() if isinstance(o, FV) else o)
    def __rsub__(self, o): return (o._v() if isinstance(o, FV) else o) - self._v()
    def __mul__(self, o): return self._v() * (o._v() if isinstance(o, FV) else o)
    __rmul__ = __mul__
    def __truediv__(self, o): return self._v() / (o._v() if isinstance(o, FV) else o)
    def __rtruediv__(self, o): return (o._v() if isinstance(o, FV) else o) / self._v()
    def __neg__(self): return -self._v()
    def __abs__(self): return abs(self._v())
    def __lt__(self, o): return self._v() < (o._v() if isinstance(o, FV) else o)
    def __le__(self, o): return self._v() <= (o._v() if isinstance(o, FV) else o)
    def __gt__(self, o): return self._v() > (o._v() if isinstance(o, FV) else o)
    def __ge__(self, o): return self._v() >= (o._v() if isinstance(o, FV) else o)
    __hash__ = object.__hash__


class MetaNd(SymNd):
    """object array standing for a float array of dtype `fdtype` ('f8' or 'f4'); masked assignment a[mask] = v works element-wise
    on the (finite?, value) samples"""
    fdtype = "f8"

    def __array_finalize__(self, obj):
        self.fdtype = getattr(obj, "fdtype", "f8")

    @staticmethod
    def _ite(c, new, old):
        if isinstance(new, FV) or isinstance(old, FV):
            nf, nv = (new.fin, new.val) if isinstance(new, FV) else (SB(z3.BoolVal(True)), new)
            of, ov = (old.fin, old.val) if isinstance(old, FV) else (SB(z3.BoolVal(True)), old)
            return FV(ite(c, nf, of), ite(c, nv, ov), getattr(old, "tag", None))
        return ite(c, new, old)


class C13Np(NumpyShim):
    def asarray(self, a, dtype=None, order=None, **k):
        if isinstance(a, MetaNd):
            return a
        if isinstance(a, (list, tuple)) and _has_fv(a):
            arr = rnp.array([list(r) if isinstance(r, (list, tuple, rnp.ndarray)) else r for r in a], dtype=object).view(MetaNd)
            arr.fdtype = "f8"
            return arr
        return NumpyShim.asarray(self, a, dtype=dtype, order=order, **k)

    def ascontiguousarray(self, a, dtype=None, **k):
        if isinstance(a, MetaNd):
            if a.fdtype == "f8" and a.flags.c_contiguous:
                return a                                   # numpy: no copy when dtype and layout already match
            out = rnp.array(a, dtype=object, order="C", copy=True).view(MetaNd)
            out.fdtype = "f8"
            return out
        return NumpyShim.ascontiguousarray(self, a, dtype=dtype, **k)

    @staticmethod
    def _vals(a):
        """(finite?, value) samples -> their values, for arithmetic / comparison functions"""
        if isinstance(a, rnp.ndarray) and a.dtype == object and any(isinstance(e, FV) for e in a.flat):
            out = rnp.empty(a.shape, dtype=object)
            for idx in rnp.ndindex(a.shape):
                e = a[idx]
                out[idx] = e._v() if isinstance(e, FV) else e
            return out.view(SymNd)
        return a._v() if isinstance(a, FV) else a

    def allclose(self, a, b, **k):
        return NumpyShim.allclose(self, self._vals(a), self._vals(b), **k)

    def isclose(self, a, b, **k):
        return NumpyShim.isclose(self, self._vals(a), self._vals(b), **k)

    def array_equal(self, a, b, **k):
        return NumpyShim.array_equal(self, self._vals(a), self._vals(b), **k)

    def isfinite(self, a):
        if isinstance(a, MetaNd):
            out = rnp.empty(a.shape, dtype=object)
            for idx in rnp.ndindex(a.shape):
                e = a[idx]
                out[idx] = e.fin if isinstance(e, FV) else SB(z3.BoolVal(True))
            return out.view(SymNd)
        if isinstance(a, (SR, float, int)):
            return True
        return NumpyShim.isfinite(self, a)

    def nan_to_num(self, a, copy=True, nan=0.0, posinf=None, neginf=None):
        if isinstance(a, MetaNd):
            tgt = rnp.array(a, dtype=object, copy=True).view(MetaNd) if copy else a
            tgt.fdtype = a.fdtype
            for idx in rnp.ndindex(a.shape):
                e = a[idx]
                if isinstance(e, FV):
                    # non-finite -> the replacement values requested (0 for nan/posinf/neginf in SpecKit's call)
                    repl = 0.0 if (nan == 0.0 and posinf == 0.0 and neginf == 0.0) else SR(ctx.fresh("nan_to_num_default"))
                    rnp.ndarray.__setitem__(tgt, idx, ite(e.fin, e.val, repl))
            return tgt
        return NumpyShim.nan_to_num(self, a, copy=copy, nan=nan, posinf=posinf, neginf=neginf)


def _has_fv(a):
    if isinstance(a, FV):
        return True
    if isinstance(a, (list, tuple)):
        return any(_has_fv(x) for x in a)
    if isinstance(a, rnp.ndarray) and a.dtype == object:
        return any(isinstance(e, FV) for e in a.flat)
    return False


LAYOUTS = ["1d-f8", "1d-f4", "1d-strided", "1d-list", "2xN-C", "Nx2-C", "Nx2-F", "2xN-F", "list-of-two", "Nx2-f4"]


def build(W, layout, N):
    """caller's object in the requested layout + the logical channels [(fin, val)]"""
    two = not layout.startswith("1d")
    nch = 2 if two else 1
    if W.sym:
        ch = [[FV(W.bool("fin%d_%d" % (c, i)), W.real("v%d_%d" % (c, i)), (c, i)) for i in range(N)] for c in range(nch)]
        mk = lambda rows, order="C", fd="f8": _mk_sym(rows, order, fd)
    else:
        ch = [[(bool(W.bool("fin%d_%d" % (c, i))), float(W.real("v%d_%d" % (c, i))), (c, i)) for i in range(N)] for c in range(nch)]
        bad = [float("nan"), float("inf"), -float("inf")]
        val = lambda t: (t[1] if t[0] else bad[(t[2][0] + t[2][1]) % 3])
        mk = lambda rows, order="C", fd="f8": rnp.array([[val(t) for t in r] for r in rows] if isinstance(rows[0], list) else [val(t) for t in rows], dtype=("float64" if fd == "f8" else "float32"), order=order)
    if layout == "1d-f8":
        obj = mk(ch[0])
    elif layout == "1d-f4":
        obj = mk(ch[0], fd="f4")
    elif layout == "1d-strided":
        # every second element of a longer buffer (the fillers are finite zeros)
        if W.sym:
            filler = [FV(SB(z3.BoolVal(True)), SR(z3.RealVal(0)), ("pad", i)) for i in range(N)]
        else:
            filler = [(True, 0.0, ("pad", i)) for i in range(N)]
        inter = [e for pair in zip(ch[0], filler) for e in pair]
        base = mk(inter)
        obj = base[::2]
    elif layout == "1d-list":
        obj = [e for e in ch[0]] if W.sym else [float(v) for v in mk(ch[0])]
    elif layout == "2xN-C":
        obj = mk([ch[0], ch[1]])
    elif layout == "Nx2-C":
        obj = mk([[ch[0][i], ch[1][i]] for i in range(N)])
    elif layout == "Nx2-F":
        obj = mk([ch[0], ch[1]]).T               # transposed C-order 2xN: an Nx2 view whose .T is C-contiguous
    elif layout == "2xN-F":
        obj = mk([[ch[0][i], ch[1][i]] for i in range(N)]).T
    elif layout == "list-of-two":
        obj = [mk(ch[0]), mk(ch[1])] if not W.sym else [[e for e in ch[0]], [e for e in ch[1]]]
    elif layout == "Nx2-f4":
        obj = mk([[ch[0][i], ch[1][i]] for i in range(N)], fd="f4")
    else:
        raise ValueError(layout)
    return obj, ch


def _mk_sym(rows, order, fd):
    a = rnp.array(rows, dtype=object, order=order).view(MetaNd)
    a.fdtype = fd
    return a


def _snapshot(obj):
    if isinstance(obj, rnp.ndarray):
        return [obj[idx] for idx in rnp.ndindex(obj.shape)] if obj.dtype == object else obj.copy()
    if isinstance(obj, list):
        return [_snapshot(o) if isinstance(o, (list, rnp.ndarray)) else o for o in obj]
    return obj


def _unchanged(obj, snap):
    if isinstance(obj, rnp.ndarray):
        if obj.dtype == object:
            return all(obj[idx] is s for idx, s in zip(rnp.ndindex(obj.shape), snap))
        return bool(rnp.array_equal(obj, snap, equal_nan=True))
    if isinstance(obj, list):
        return all((_unchanged(o, s) if isinstance(o, (list, rnp.ndarray)) else (o is s or o == s or (o != o and s != s))) for o, s in zip(obj, snap))
    return True


def ob_constructor(W, layout, N):
    import speckit.analysis as A
    obj, ch = build(W, layout, N)
    snap = _snapshot(obj)
    if W.sym:
        G = clone_module(A, dict(np=C13Np()))
        a = G["SpectrumAnalyzer"](obj, 2.0, win="hann", olap=0.5)
    else:
        a = A.SpectrumAnalyzer(obj, 2.0, win="hann", olap=0.5)
    two = len(ch) == 2
    W.goal("mode", a.iscsd == two)
    W.goal("record length", a.nx == N)
    W.goal("caller's data untouched", _unchanged(obj, snap))
    for c, stored in enumerate([a.x1] + ([a.x2] if two else [])):
        for i in range(N):
            if W.sym:
                e = ch[c][i]
                W.goal("stored ch%d[%d] = value if finite else 0" % (c, i), W.eq(stored[i] if not isinstance(stored[i], FV) else _fv_as_value(stored[i]), ite(e.fin, e.val, 0.0)))
                W.goal("stored ch%d[%d] is a plain finite number" % (c, i), True if not isinstance(stored[i], FV) else stored[i].fin)
            else:
                fin, v, _ = ch[c][i]
                W.goal("stored ch%d[%d] = value if finite else 0" % (c, i), float(stored[i]) == (float(rnp.float32(v)) if "f4" in layout else v) if fin else float(stored[i]) == 0.0)
                W.goal("stored ch%d[%d] is a plain finite number" % (c, i), bool(rnp.isfinite(stored[i])))


def _fv_as_value(e):
    # a sample that was never sanitised: its value is only meaningful when finite (one arbitrary symbol per sample otherwise)
    return ite(e.fin, e.val, SR(z3.Real("nonfinite_value_%s" % "_".join(map(str, e.tag if isinstance(e.tag, tuple) else (e.tag,))))))


def ob_copy_model(W):
    """the copy/alias model against real numpy on the same layouts"""
    ok = True
    for layout in LAYOUTS:
        class _C:
            sym = False
            def bool(self, n): return True
            def real(self, n): return 1.5
        obj, ch = build(_C(), layout, 3)
        x = rnp.asarray(obj)
        if x.ndim == 2:
            d2 = x if (x.shape[0] == 2 and x.shape[1] != 2) else (x.T if (x.shape[1] == 2 and x.shape[0] != 2) else (x if x.shape[0] == 2 else x.T))
        else:
            d2 = x
        real_shares = rnp.shares_memory(rnp.ascontiguousarray(d2, dtype=rnp.float64), x) if isinstance(obj, rnp.ndarray) else False
        model_shares = isinstance(obj, rnp.ndarray) and obj.dtype == rnp.float64 and d2.flags.c_contiguous
        ok = ok and (real_shares == model_shares)
    W.goal("copy rule of ascontiguousarray matches real numpy on all layouts", ok)


def ob_kernel_readonly(W, backend, fam, mode, L, starts, order, N):
    """no backend function writes into the record or window it is given"""
    x = W.reals("x", N); y = W.reals("y", N) if mode == "csd" else x
    w = W.reals("w", L)
    om = W.omega("w")
    sx, sy, sw = _snapshot(x), _snapshot(y), _snapshot(w)
    K.run(W, backend, fam, mode, x, y, starts, L, w, om, order)
    W.goal("record untouched", _unchanged(x, sx) and _unchanged(y, sy))
    W.goal("window untouched", _unchanged(w, sw))


DENS = ["Gxx", "Gyy", "Gxy", "ps", "cs", "ENBW", "coh", "ccoh", "Hxy", "Hyx", "tf", "cf", "GyyCx", "GyyRx", "GyySx", "psd", "asd", "csd", "Gyx", "XY_emp_var", "XY_emp_dev", "Gxx_emp_dev", "Gxy_emp_dev",
        "Gxx_dev", "Gyy_dev", "Gxx_error", "Gyy_error"]
ERRS = ["Gxy_dev", "Hxy_dev", "coh_dev", "Gxy_error", "Hxy_mag_error", "Hxy_rad_error", "Hxy_deg_error", "coh_error"]


def ob_defined(W, cross, zero):
    """every division / sqrt behind the density, coherence and transfer-function attributes is defined, also for all-zero statistics"""
    b = R.bin_inputs(W, cross=cross, pos=False, psd_cs=True)
    fs = W.real("fs")
    if W.sym:
        W.assume(fs > 0)
        if zero == "x":
            W.assume(b["XX"] == 0)
        if zero == "y" and cross:
            W.assume(b["YY"] == 0)
    elif not fs > 0:
        return
    r = R.mk(W, [b], cross, fs)
    for nm in DENS:
        v = getattr(r, nm)
        if v is not None and not W.sym:
            W.goal("finite/" + nm, bool(rnp.all(rnp.isfinite(v))))
    W.vc_goals("defined")


def ob_defined_errors(W):
    b = R.bin_inputs(W, cross=True, pos=True, psd_cs=True)
    fs = W.real("fs")
    if W.sym:
        W.assume(fs > 0)
        W.assume(b["XY"].re * b["XY"].re + b["XY"].im * b["XY"].im > 0)      # coherence positive
    elif not (fs > 0 and abs(b["XY"]) > 0):
        return
    r = R.mk(W, [b], True, fs)
    for nm in ERRS:
        v = getattr(r, nm)
        if not W.sym:
            W.goal("finite/" + nm, bool(rnp.all(rnp.isfinite(v))))
    W.vc_goals("defined")


def ob_result_sanitised(W, order, iscsd, backend):
    """whatever a kernel returns -- including statistics that are not finite, which overflow produces for huge finite samples --
    the statistics stored in the result of compute() are finite numbers: non-finite ones are replaced by zero.  The kernels are
    stand-ins returning (finite?, value) statistics with symbolic flags; the analyzer is built by its real constructor."""
    import speckit.analysis as A
    from . import C05
    Ls, Ks = [4, 6], [2, 1]
    nf, N = 2, 12
    names = ("MXX", "MYY", "mu_r", "mu_i", "M2")
    flags = [[W.bool("fin%d_%s" % (j, nm)) for nm in names] for j in range(nf)]
    vals = [[W.real("val%d_%s" % (j, nm)) for nm in names] for j in range(nf)]
    D = [rnp.array([0, 8]), rnp.array([0])]
    if W.sym:
        fs = SR(z3.RealVal(2))
        calls = []

        def kernel(*args):
            j = len(calls)
            calls.append(args)
            return tuple(FV(flags[j][i], vals[j][i], ("stat", j, i)) for i in range(5))
        over = {K.fname(b, fam, m): kernel for b in K.BACKENDS for fam in K.FAMILIES for m in ("auto", "csd")}

        class _Np(C13Np):
            def empty(self, shape, dtype=None, **k):
                a = rnp.empty(shape, dtype=object)
                a.fill(SR(z3.RealVal(0)))
                return a.view(MetaNd)

            def real(self, a):
                return _map_fv(a, lambda e: e.real if hasattr(e, "real") and not isinstance(e, FV) else e)

            def imag(self, a):
                return _map_fv(a, lambda e: e.imag if hasattr(e, "imag") and not isinstance(e, FV) else 0)
        NP = _Np()
        over.update(np=NP, _build_Q=lambda L, o: C05.QTag(int(L), int(o)))
        G = clone_module(A, over, importer=lambda name, fromlist: (NP if name == "numpy" else None))
        x1 = W.reals("x", N); x2 = W.reals("y", N) if iscsd else None
        plan = {"f": rnp.array([0.1, 0.3]), "r": rnp.array([2.0 / L for L in Ls]), "b": rnp.array([0.1 * Ls[0] / 2, 0.3 * Ls[1] / 2]), "L": rnp.array(Ls), "K": rnp.array(Ks),
                "navg": rnp.array(Ks), "D": [d.copy() for d in D], "O": rnp.zeros(nf), "nf": nf}
        data = x1 if not iscsd else rnp.array([list(x1), list(x2)], dtype=object).view(SymNd)
        a = G["SpectrumAnalyzer"](data, fs, order=order, backend=backend, win="hann", olap=0.5, scheduler=(lambda **kw: plan))
        res = a.compute()
        d = res._data
        for key in ("XX", "YY", "M2", "S2", "S12"):
            for j in range(nf):
                e = d[key][j]
                W.goal("result %s[%d] is a finite number" % (key, j), True if not isinstance(e, FV) else e.fin)
        for j in range(nf):
            e = d["XY"][j]
            for part, nm in ((getattr(e, "re", e), "re"), (getattr(e, "im", 0), "im")):
                W.goal("result XY[%d].%s is a finite number" % (j, nm), True if not isinstance(part, FV) else part.fin)
            W.goal("XX[%d] = kernel value if finite else 0" % j, W.eq(d["XX"][j] if not isinstance(d["XX"][j], FV) else d["XX"][j]._v(), ite(flags[j][0], vals[j][0], 0.0)))
        return
    # replay: real compute() with kernels returning inf / nan where the model's flag is false
    import speckit.analysis as A
    bad = [float("inf"), float("nan"), -float("inf")]
    calls = []

    def kernel(*args):
        j = len(calls)
        calls.append(args)
        return tuple((float(vals[j][i]) if bool(flags[j][i]) else bad[(i + j) % 3]) for i in range(5))
    saved = {}
    for b in K.BACKENDS:
        for fam in K.FAMILIES:
            for m in ("auto", "csd"):
                nm = K.fname(b, fam, m)
                if hasattr(A, nm):
                    saved[nm] = getattr(A, nm)
                    setattr(A, nm, kernel)
    try:
        rng = rnp.random.default_rng(5)
        data = rng.standard_normal((2, N)) if iscsd else rng.standard_normal(N)
        plan = {"f": rnp.array([0.1, 0.3]), "r": rnp.array([2.0 / L for L in Ls]), "b": rnp.array([0.1 * Ls[0] / 2, 0.3 * Ls[1] / 2]), "L": rnp.array(Ls), "K": rnp.array(Ks),
                "navg": rnp.array(Ks), "D": [d.copy() for d in D], "O": rnp.zeros(nf), "nf": nf}
        res = A.SpectrumAnalyzer(data, 2.0, order=order, backend=backend, win="hann", olap=0.5, scheduler=(lambda **kw: plan)).compute()
        ok = all(bool(rnp.all(rnp.isfinite(getattr(res, k)))) for k in ("XX", "YY", "XY", "M2", "S2", "S12"))
        for j in range(nf):
            exp = float(vals[j][0]) if bool(flags[j][0]) else 0.0
            ok = ok and abs(float(res.XX[j]) - exp) <= 1e-9 * (1 + abs(exp))
    except Exception as e:
        ok = False
        W.note("real compute() raised %r" % (e,))
    finally:
        for nm, f in saved.items():
            setattr(A, nm, f)
    W.resolver = lambda name: ok


def _map_fv(a, f):
    a = rnp.asarray(a, dtype=object)
    out = rnp.empty(a.shape, dtype=object)
    for idx in rnp.ndindex(a.shape):
        out[idx] = f(a[idx])
    return out.view(MetaNd)


def obligations(tier):
    obs = [{"name": "copy-model", "fn": "ob_copy_model", "params": {}, "vacuity": False}]
    for order, iscsd, backend in ((0, True, "numpy"), (-1, False, "numba"), (1, True, "cuda")):
        obs.append({"name": "result-sanitised/o%d/%s/%s" % (order, "csd" if iscsd else "auto", backend), "fn": "ob_result_sanitised",
                    "params": {"order": order, "iscsd": iscsd, "backend": backend}, "weight": 6})
    N = 3 if tier == "quick" else 4
    for layout in LAYOUTS:
        obs.append({"name": "constructor/%s" % layout, "fn": "ob_constructor", "params": {"layout": layout, "N": N}, "fork": True, "max_paths": 600, "weight": 10})
    shapes = [(3, [1]), (2, [0, 2]), (3, [0, 1]), (2, [0])] + ([(4, [0]), (4, [0, 2])] if tier == "thorough" else [])
    for backend in K.BACKENDS:
        for order in (-1, 0, 1, 2):
            fam = K.family_of(order)
            for mode in ("auto", "csd"):
                for L, st in shapes:
                    obs.append({"name": "readonly/%s/%s_%s/o%d/L%d/s%s" % (backend, fam, mode, order, L, "-".join(map(str, st))), "fn": "ob_kernel_readonly",
                                "params": dict(backend=backend, fam=fam, mode=mode, L=L, starts=st, order=order, N=max(s for s in st) + L), "weight": L})
    for cross in (True, False):
        for zero in ("none", "x", "y"):
            if zero == "y" and not cross:
                continue
            obs.append({"name": "defined/%s/zero-%s" % ("csd" if cross else "auto", zero), "fn": "ob_defined", "params": {"cross": cross, "zero": zero}})
    obs.append({"name": "defined/errors", "fn": "ob_defined_errors", "params": {}})
    return obs
