"""Shared access to the 18 backend functions (6 Numba py_func, 6 NumPy, 6 CUDA host wrapper+kernel)
in both worlds, the exact model of the detrend basis, and the textbook reference."""
import math
from fractions import Fraction as F
import numpy as rnp
import z3

from symx import ctx
from symx.proxy import SR, SC, AR, Omega, Angle, plain, rv, Unsupported
from symx.shim import NumpyShim, MathShim, clone, oarr, SymNd, make_builtins
import types as _types

FAMILIES = ("win_only", "detrend0", "poly")
BACKENDS = ("numba", "numpy", "cuda")
STAT_NAMES = ("MXX", "MYY", "mu_r", "mu_i", "M2")


def family_of(order):
    return "win_only" if order == -1 else ("detrend0" if order == 0 else "poly")


# ----------------------------------------------------------------------------- exact QR stub
def _rat(v):
    if isinstance(v, SR):
        t = z3.simplify(v.t)
        if z3.is_int_value(t):
            return F(t.as_long())
        if z3.is_rational_value(t):
            return F(t.numerator_as_long(), t.denominator_as_long()).limit_denominator(10 ** 6)
        raise Unsupported("QR of a symbolic matrix")
    return F(float(v)).limit_denominator(10 ** 6)


def exact_qr(V, mode="reduced"):
    """np.linalg.qr contract: Q has orthonormal columns spanning the column space of V (taken in
    order).  Columns are u_k * sigma_k with u_k rational (Gram-Schmidt) and sigma_k^2 = 1/<u_k,u_k>
    kept as a formal constant.  Signs are immaterial for every use in SpecKit (Q enters twice)."""
    V = rnp.asarray(V)
    L, m = V.shape
    cols = [[_rat(V[n, k]) for n in range(L)] for k in range(m)]
    U = []
    for v in cols:
        u = list(v)
        for q in U:
            d = sum(b * b for b in q)
            co = sum(a * b for a, b in zip(v, q)) / d
            u = [a - co * b for a, b in zip(u, q)]
        if any(u):
            U.append(u)
        if len(U) == min(L, m):
            break
    Q = rnp.empty((L, len(U)), dtype=object)
    base = len(AR.ALG)
    for k, u in enumerate(U):
        d = sum(b * b for b in u)
        key = "q%d_%d_%d" % (L, m, k)
        AR.ALG[key] = 1 / d
        for n in range(L):
            Q[n, k] = AR({(key,): z3.RealVal(str(u[n]))}) if u[n] != 0 else AR({(): z3.RealVal(0)})
    return Q.view(SymNd), None


def projector(L, order):
    """exact orthogonal projector onto polynomials of degree <= order sampled on L equispaced points
    (written from the property text; independent of _build_Q)"""
    if order < 0:
        return [[F(0)] * L for _ in range(L)]
    cols = [[F(n) ** k for n in range(L)] for k in range(order + 1)]
    U = []
    for v in cols:
        u = list(v)
        for q in U:
            co = sum(a * b for a, b in zip(v, q)) / sum(b * b for b in q)
            u = [a - co * b for a, b in zip(u, q)]
        if any(u):
            U.append(u)
    return [[sum(u[n] * u[m] / sum(b * b for b in u) for u in U) for m in range(L)] for n in range(L)]


# ----------------------------------------------------------------------------- fake CUDA
class _Dev(SymNd):
    def copy_to_host(self):
        return rnp.asarray(self).view(SymNd)


class _DevC(rnp.ndarray):
    def copy_to_host(self):
        return rnp.asarray(self)


class FakeCuda:
    """one-thread-per-index semantics of a 1-D launch; local arrays are private lists;
    device arrays are host arrays (transfers are identity) -- the same semantics as numba's simulator"""

    class local:
        @staticmethod
        def array(n, dtype=None):
            return [SR(z3.RealVal(0))] * n if False else [0.0] * n

    def __init__(self):
        self.tid = None
        self.launches = []

    def grid(self, nd):
        return self.tid

    def to_device(self, a):
        # device memory is separate from host memory: a transfer is a copy
        if isinstance(a, rnp.ndarray) and a.dtype == object:
            return a.copy().view(_Dev)
        return rnp.array(a, copy=True).view(_DevC)

    def device_array(self, n, dtype=None):
        a = rnp.empty(n, dtype=object).view(_Dev)
        a.fill(SR(z3.RealVal(0)))
        return a


class FakeKernel:
    def __init__(self, pyf, cuda, G):
        self.f, self.cuda = pyf, cuda

    def __getitem__(self, cfg):
        blocks, threads = cfg
        blocks, threads = int(blocks), int(threads)

        def launch(*args):
            self.cuda.launches.append((blocks, threads))
            for tid in range(blocks * threads):
                self.cuda.tid = tid
                self.f(*args)
        return launch


# ----------------------------------------------------------------------------- clones
_CACHE = {}


def sym_modules(threads_per_block=4):
    """speckit.core and speckit.core_cuda re-created over redirected namespaces (every function, every method of their classes,
    module-level tables copied): numpy -> shim, prange -> range, numba.cuda -> one-thread-per-index launcher"""
    key = ("mods", threads_per_block)
    if key in _CACHE:
        return _CACHE[key]
    import speckit.core as core, speckit.core_cuda as cc
    from symx.shim import clone_module
    NP = NumpyShim(linalg_qr=exact_qr)
    G = clone_module(core, dict(np=NP, _prange=range))
    cuda = FakeCuda()
    GC = clone_module(cc, dict(np=NP, math=MathShim(), cuda=cuda, THREADS_PER_BLOCK=threads_per_block, _reduce_stats_nb=G["_reduce_stats_nb"]))
    import types as _ty
    for name in list(GC):
        real = cc.__dict__.get(name)
        # device kernels are numba dispatcher objects (they have py_func and are not plain functions); host helpers are not
        if real is not None and hasattr(real, "py_func") and not isinstance(real, _ty.FunctionType) and "cuda" in type(real).__module__ and callable(GC[name]) and not isinstance(GC[name], FakeKernel):
            GC[name] = FakeKernel(GC[name], cuda, GC)
    _CACHE[key] = (G, GC, cuda)
    return _CACHE[key]


def fname(backend, fam, mode):
    return "_stats_%s_%s%s" % (fam, mode, {"numba": "", "numpy": "_np", "cuda": "_cuda"}[backend])


def real_fn(backend, fam, mode):
    import speckit.core as core, speckit.core_cuda as cc
    return getattr(cc if backend == "cuda" else core, fname(backend, fam, mode))


def all_encoded():
    import speckit.core as core, speckit.core_cuda as cc
    out = [core._build_Q, core._reduce_stats_nb, core._apply_detrend0_inplace_nb_mean, core._apply_detrend0_inplace_nb_val,
           core._apply_poly_detrend_inplace_nb_alpha, core._apply_poly_detrend_inplace_nb_rowdot, core._check_starts_bounds, core._gather_segments]
    for b in BACKENDS:
        for fam in FAMILIES:
            for mode in ("auto", "csd"):
                out.append(real_fn(b, fam, mode))
                if b == "cuda":
                    out.append(getattr(cc, fname(b, fam, mode) + "_kernel"))
    return out


def run(W, backend, fam, mode, x, y, starts, L, w, omega, order, chunk=None, prior_q=None):
    """call one backend function; symbolic world: clone on proxies; concrete world: the real function.
    chunk: value for the NumPy fallbacks' _chunk keyword (exercises their chunk loop at small K)"""
    st = rnp.asarray(starts, dtype=rnp.int64)
    kw = {"_chunk": chunk} if (chunk and backend == "numpy") else {}
    if W.sym:
        G, GC, cuda = sym_modules()
        f = (GC if backend == "cuda" else G)[fname(backend, fam, mode)]
        args = [x] + ([y] if mode == "csd" else []) + [st, L, w, omega]
        if fam == "poly":
            if prior_q:
                G["_build_Q"](L, prior_q)         # history: a basis of another order was built for this segment length earlier in the process
            args.append(G["_build_Q"](L, order))
        res = f(*args, **kw)
        return [plain(v) for v in res]
    import speckit.core as core
    f = real_fn(backend, fam, mode)
    xs = rnp.ascontiguousarray(x, dtype=rnp.float64)
    args = [xs] + ([rnp.ascontiguousarray(y, dtype=rnp.float64)] if mode == "csd" else []) + [st, L, rnp.ascontiguousarray(w, dtype=rnp.float64), float(omega)]
    if fam == "poly":
        if prior_q:
            core._build_Q(L, prior_q)
        args.append(core._build_Q(L, order))
    return [float(v) for v in f(*args, **kw)]


# ----------------------------------------------------------------------------- reference
def seg_dft(W, seg, w, omega, P):
    """X(w) = sum_n win[n]*(seg[n]-trend[n])*exp(-i*w*n), trend = P @ seg (exact rational projector)"""
    L = len(seg)
    acc = None
    for n in range(L):
        tr = 0
        for m in range(L):
            if P[n][m] != 0:
                tr = tr + seg[m] * P[n][m]
        v = (seg[n] - tr) * w[n]
        term = W.cis(omega, -n) * v
        acc = term if acc is None else acc + term
    return acc


def reference(W, x, y, starts, L, w, omega, order, mode):
    P = projector(L, order)
    zs = []
    for s in starts:
        X = seg_dft(W, [x[s + n] for n in range(L)], w, omega, P)
        Y = seg_dft(W, [y[s + n] for n in range(L)], w, omega, P) if mode == "csd" else X
        z = X * Y.conjugate()
        zs.append((X.real * X.real + X.imag * X.imag, Y.real * Y.real + Y.imag * Y.imag, z.real, z.imag))
    K = len(starts)
    m = [sum(z[i] for z in zs) / K for i in range(4)]
    if K >= 2:
        M2 = sum((z[2] - m[2]) * (z[2] - m[2]) + (z[3] - m[3]) * (z[3] - m[3]) for z in zs) / K
    else:
        M2 = W.num(0)
    return m + [M2]
