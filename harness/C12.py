"""C12 -- the Kaiser window delivers the requested side-lobe suppression."""
import math
from fractions import Fraction as F
import numpy as rnp
import z3

from symx.proxy import SR
from symx.shim import clone_module

PROPERTY = "C12"
META = {
    "bounds": {"quick": "(L,P) in {64,65,128} x {60,200} (+ (100,120)); for each, the window is the exact double-valued array the analyzer hands to its kernels (captured from the real compute()/compute_single_bin() code paths), |W(omega)|^2 is a univariate polynomial in c=cos(omega) with rational coefficients, and the solver decides EVERY omega beyond the main lobe (cell covering of [-1, cos(2*pi*sqrt(1+alpha^2)/L)] with 16-32 cells)",
               "thorough": "L in {64,65,100,127,128,256,257} x P in {40,60,100,150,200}, 32-64 cells, 300 s per cell"},
    "outside": ["segment lengths and levels off the grid", "the image term of a real sinusoid (one more term of the same kind at offset omega+omega0, also beyond the main lobe)", "loss of precision inside the Goertzel recurrence (C01 is over the reals)"],
    "stubs": ["np.kaiser: the real C function (its doubles are taken as exact rationals)"],
    "assumptions": ["threshold: 10^-((P-1)/10) relative to |W(0)|^2, main-lobe half-width sqrt(1+alpha^2) bins with alpha=kaiser_alpha(P)"],
}
POLY = {}
_SHARED = {}


def encoded_functions():
    import speckit.utils as U, speckit.analysis as A
    return [U.kaiser_alpha, A.SpectrumAnalyzer._process_window_config, A.SpectrumAnalyzer._lpsd_core, A.SpectrumAnalyzer.compute_single_bin]


def captured_windows(L, P):
    """run the real analyzer code (full and single-bin paths) with recorder kernels and return the windows they receive"""
    import speckit.analysis as A
    from . import kernels as K
    got = {}

    def mk(tag):
        def f(*args):
            w = [a for a in args if isinstance(a, rnp.ndarray) and a.dtype == rnp.float64 and a.ndim == 1 and a.shape[0] == L]
            got.setdefault(tag, rnp.array(w[-1], copy=True))
            return (1.0, 1.0, 1.0, 0.0, 0.0)
        return f
    over = {}
    for b in K.BACKENDS:
        for fam in K.FAMILIES:
            for m in ("auto", "csd"):
                over[K.fname(b, fam, m)] = None
    N = L + 8
    x = rnp.zeros(N) + 1.0
    cur = {"tag": None}

    def router(*args):
        return mk(cur["tag"])(*args)
    # ONE copy of the analysis module serves every (L, P) of this run, as in a real process: whatever an analysis leaves behind
    # at module level (caches) is seen by the next one
    if "G" not in _SHARED:
        _SHARED["G"] = clone_module(A, {k: (lambda *a: _SHARED["router"](*a)) for k in over})
    _SHARED["router"] = router
    G = _SHARED["G"]
    for tag in ("compute", "single"):
        cur["tag"] = tag
        if tag == "compute":
            sched = lambda **kw: {"f": rnp.array([0.1]), "r": rnp.array([1.0 / L]), "b": rnp.array([0.1 * L]), "L": rnp.array([L]), "K": rnp.array([1]), "navg": rnp.array([1]),
                                  "D": [rnp.array([0])], "O": rnp.array([0.0]), "nf": 1}
            a = G["SpectrumAnalyzer"](x, 1.0, psll=P, win="kaiser", scheduler=sched, order=-1, backend="numpy")
            a.compute()
        else:
            a = G["SpectrumAnalyzer"](x, 1.0, psll=P, win="kaiser", order=-1, backend="numpy")
            a.compute_single_bin(0.1, L=L)
        alpha = a.config["alpha"]
    return got, alpha


def cheb(n):
    T = [[1], [0, 1]]
    for k in range(2, n + 1):
        a, b = T[-1], T[-2]
        t = [0] + [2 * v for v in a]
        for i, v in enumerate(b):
            t[i] -= v
        T.append(t)
    return T[: n + 1]


def build_poly(w):
    """integer-coefficient polynomial q(c) = D*|W|^2(c)/W0, c = cos(omega), and D (W0 = (sum w)^2)"""
    L = len(w)
    wf = [F(float(v)) for v in w]
    r = [sum(wf[n] * wf[n + k] for n in range(L - k)) for k in range(L)]
    T = cheb(L - 1)
    p = [F(0)] * L
    for k in range(L):
        coef = r[0] if k == 0 else 2 * r[k]
        for i, t in enumerate(T[k]):
            if t:
                p[i] += coef * t
    W0 = sum(wf) ** 2
    pn = [v / W0 for v in p]
    den = 1
    for v in pn:
        den = den * v.denominator // math.gcd(den, v.denominator)
    return [int(v * den) for v in pn], den


def prepare(L, P):
    key = (L, P)
    if key in POLY:
        return POLY[key]
    wins, alpha = captured_windows(L, P)
    ws = list(wins.values())
    same = len(ws) == 2 and rnp.array_equal(ws[0], ws[1])
    polys = {}
    for tag, w in wins.items():
        if tag == "single" and same:
            continue
        polys[tag if not same else "both-paths"] = (build_poly(w), w)
    POLY[key] = dict(polys=polys, alpha=float(alpha), nwin=len(ws), same=same)
    return POLY[key]


def ob_cell(W, L, P, tag, i, cells):
    d = prepare(L, P)
    (coef, den), w = d["polys"][tag]
    alpha = d["alpha"]
    ml = 2 * math.pi * math.sqrt(1 + alpha * alpha) / L
    c_ml = F(math.cos(ml))
    lo = F(-1) + (c_ml + 1) * F(i, cells)
    hi = F(-1) + (c_ml + 1) * F(i + 1, cells)
    thr = F(10.0 ** (-(P - 1) / 10.0))
    c = W.real("c")
    if W.sym:
        W.assume(c >= lo); W.assume(c <= hi)
        e = z3.RealVal(0)
        for a in reversed(coef):
            e = e * c.t + z3.IntVal(a)
        W.goal("sidelobes<=-(P-1)dB", e <= z3.RealVal(str(thr * den)), L=L, P=P, cell=[float(lo), float(hi)])
    else:
        cc = min(1.0, max(-1.0, float(c)))
        om = math.acos(cc)
        n = rnp.arange(len(w))
        Wm = abs(rnp.sum(w * rnp.exp(-1j * om * n))) ** 2 / rnp.sum(w) ** 2
        W.goal("sidelobes<=-(P-1)dB", Wm <= float(thr) * (1 + 1e-9), rel_dB=10 * math.log10(max(Wm, 1e-300)))


def ob_window_paths(W, L, P):
    """both code paths hand the kernels the same window: the DFT-even Kaiser window of length L with beta = alpha(P)*pi"""
    d = prepare(L, P)
    W.goal("two-paths-captured", d["nwin"] == 2)
    W.goal("full and single-bin windows identical", d["same"])
    import speckit.utils as U
    ref = rnp.kaiser(L + 1, U.kaiser_alpha(P) * rnp.pi)[:-1]
    for tag, (poly, w) in d["polys"].items():
        # (to 1e-9: the side-lobe obligations decide the property for the exact captured window; this one only names gross deviations)
        W.goal("window[%s] = kaiser(L+1, alpha*pi)[:-1]" % tag, len(w) == L and bool(rnp.allclose(w, ref, rtol=0, atol=1e-9 * float(rnp.max(rnp.abs(ref))))))


def obligations(tier):
    obs = []
    if tier == "quick":
        grid = [(64, 60, 16), (64, 200, 16), (65, 60, 16), (65, 200, 16), (128, 60, 32), (128, 200, 32), (100, 120, 24)]
        to = 30
    else:
        grid = [(L, P, 32 if L < 200 else 64) for L in (64, 65, 100, 127, 128, 256, 257) for P in (40, 60, 100, 150, 200)]
        to = 300
    for L, P, cells in grid:
        d = prepare(L, P)
        obs.append({"name": "window/L%d/P%d" % (L, P), "fn": "ob_window_paths", "params": {"L": L, "P": P}, "vacuity": False})
        for tag in d["polys"]:
            for i in range(cells):
                obs.append({"name": "sidelobe/L%d/P%d/%s/cell%02d" % (L, P, tag, i), "fn": "ob_cell", "params": {"L": L, "P": P, "tag": tag, "i": i, "cells": cells}, "timeout": to, "weight": L // 16})
    return obs
