"""C02 -- every plan segments the record safely and completely."""
from . import sched as SC

PROPERTY = "C02"
PREFIX = "C02/"
META = {
    "bounds": {"quick": "one loop iteration of each scheduler from an ARBITRARY state fi in [fmin,fmax), N>=8 symbolic and unbounded, all configuration parameters symbolic; start loop: generic k-th iteration from the proved invariant start=k*shift (N unbounded) and literal unrolling for N<=12 with unwinding assertion",
               "thorough": "literal unrolling for N<=24"},
    "outside": ["IEEE ties/rounding in the scheduler arithmetic (exact reals here)", SC.POW_FACTS + " (abstraction of the power; counterexamples are replayed on real plans)"],
    "stubs": ["(N/2)**(1/Jdes) -> uninterpreted application with the facts above", "round_half_up -> proved summary floor(v+1/2)"],
    "assumptions": ["admissible configuration: N>=8, fs>0, 0<=olap<1, 1<=bmin<N/2, 1<=Lmin<=N, Jdes>=1, Kdes>=1"],
}


def encoded_functions():
    S = SC.S()
    import speckit.analysis as A
    return [S.ltf_plan, S.lpsd_plan, S.vectorized_ltf_plan, S.new_ltf_plan, A.SpectrumAnalyzer.plan]


def ob_ltf(W, sched, part, bound=12):
    return SC.ob_ltf(W, sched, part, bound)


def ob_vec(W, part):
    return SC.ob_vec(W, part)


def obligations(tier):
    obs = []
    for sched in ("ltf", "lpsd"):
        for part in ("step", "seg-generic"):
            obs.append({"name": "%s/%s" % (sched, part), "fn": "ob_ltf", "params": {"sched": sched, "part": part}, "timeout": 30 if tier == "quick" else 200})
        b = 12 if tier == "quick" else 24
        obs.append({"name": "%s/seg-N%d" % (sched, b), "fn": "ob_ltf", "params": {"sched": sched, "part": "seg", "bound": b}, "timeout": 60 if tier == "quick" else 600, "weight": 10})
    obs.append({"name": "vec/step", "fn": "ob_vec", "params": {"part": "step"}, "timeout": 30 if tier == "quick" else 200})
    return obs
