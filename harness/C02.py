"""C02 -- every plan segments the record safely and completely."""
from . import sched as SC

PROPERTY = "C02"
META = {
    "bounds": {"quick": "one loop iteration of each scheduler from an ARBITRARY state fi in [fmin,fmax), N>=8 symbolic and unbounded, all configuration parameters symbolic; start computation: generic k-th iteration from the proved invariant start=k*shift (ltf/lpsd, N unbounded), literal unrolling for N<=12 with unwinding assertion, generic-element array [0,m,m+1,K-1] for the vectorised schedulers (N unbounded); SpectrumAnalyzer.plan() validation on symbolic plans of nf<=2 bins, K<=3; scheduler resolved from the name 'lpsd' + plan() at N=64 with Lmin symbolic in 1..64",
               "thorough": "literal unrolling for N<=24; whole plans of ltf/lpsd executed path by path (fork mode, every branch and loop test decided per path, budget 80 paths) at N=8, Jdes=1 (power exact), Lmin in {2,4}, fs=1 with olap, bmin, Kdes<=6 symbolic"},
    "outside": ["IEEE ties/rounding in the scheduler arithmetic (exact reals here)", SC.POW_FACTS + " (abstraction of the power; counterexamples are replayed on real plans)",
                "the lookup grid of vectorized_ltf_plan is abstracted to a generic adjacent pair g0<f<=g1=rho*g0"],
    "stubs": ["(N/2)**(1/Jdes) -> uninterpreted application with the facts above", "round_half_up -> proved summary floor(v+1/2)", "np.logspace/np.searchsorted -> generic adjacent grid pair (searchsorted contract, side='left')", "np.arange(K) for symbolic K -> generic-element array"],
    "assumptions": ["admissible configuration: N>=8, fs>0, 0<=olap<1, 1<=bmin<N/2, 1<=Lmin<=N, Jdes>=1, Kdes>=1"],
}
GROUPS = [["C02/defined*"], ["C02/L-range", "C02/K>=1", "C02/K=navg*", "C02/K=1*", "C02/first*", "C02/plan-K*", "C02/unwinding*", "C02/structure*", "C02/appended*", "C02/start-loop*", "C02/noraise*"],
          ["C02/starts-in-range"], ["C02/starts-increasing"], ["C02/last-start*"]]


def encoded_functions():
    S = SC.S()
    import speckit.analysis as A
    return [S.ltf_plan, S.lpsd_plan, S.vectorized_ltf_plan, S.new_ltf_plan, A.SpectrumAnalyzer.plan]


def ob_ltf(W, sched, part, bound=12, prior=False):
    return SC.ob_ltf(W, sched, part, bound, prior)


def ob_vec(W, part, fork_ifs=False, prior=False):
    return SC.ob_vec(W, part, fork_ifs, prior)


def ob_new(W, part):
    return SC.ob_new(W, part)


def ob_vec_tail(W):
    return SC.ob_vec_tail(W)


def ob_ltf_tail(W, sched):
    return SC.ob_ltf_tail(W, sched)


def ob_whole_plan(W, sched, N, Jdes, Lmin, fs_value=None):
    return SC.ob_whole_plan(W, sched, N, Jdes, Lmin, fs_value)


def whole_plan_obligations(obs, tier, prefix):
    """thorough tier: whole plans of the iterative schedulers explored path by path at the smallest admissible record length"""
    if tier != "thorough":
        return
    for sched, Lmin in (("ltf", 2), ("ltf", 4), ("lpsd", 1)):
        obs.append({"name": "%s/whole-plan/N8-J1-Lmin%d" % (sched, Lmin), "fn": "ob_whole_plan", "params": {"sched": sched, "N": 8, "Jdes": 1, "Lmin": Lmin, "fs_value": 1},
                    "fork": True, "max_paths": 80, "timeout": 20, "limit": 2400, "weight": 30, "only": [prefix + "/*"], "vacuity": False})


def ob_plan(W, **kw):
    return SC.ob_plan(W, **kw)


def ob_plan_by_name(W, **kw):
    return SC.ob_plan_by_name(W, **kw)


def split(obs, name, fn, params, groups, **kw):
    for gi, pats in enumerate(groups):
        obs.append(dict(kw, name="%s/g%d" % (name, gi), fn=fn, params=params, only=pats))


def obligations(tier):
    obs = []
    to = 30 if tier == "quick" else 200
    for sched in ("ltf", "lpsd"):
        split(obs, "%s/step" % sched, "ob_ltf", {"sched": sched, "part": "step"}, GROUPS[:2], timeout=to)
        split(obs, "%s/seg-generic" % sched, "ob_ltf", {"sched": sched, "part": "seg-generic"}, GROUPS, timeout=to)
        b = 12 if tier == "quick" else 24
        split(obs, "%s/seg-N%d" % (sched, b), "ob_ltf", {"sched": sched, "part": "seg", "bound": b}, GROUPS, timeout=60 if tier == "quick" else 900, weight=10)
        # after an earlier plan for another record in the same process (module-level state must not leak into this one)
        split(obs, "%s/step-after-prior-plan" % sched, "ob_ltf", {"sched": sched, "part": "step", "prior": True}, GROUPS[1:2], timeout=to, fork=True, max_paths=32)
        split(obs, "%s/seg-N%d-after-prior-plan" % (sched, b), "ob_ltf", {"sched": sched, "part": "seg", "bound": b, "prior": True}, [GROUPS[1], GROUPS[4]], timeout=60 if tier == "quick" else 900, weight=10, fork=True, max_paths=32)
        obs.append({"name": "%s/tail" % sched, "fn": "ob_ltf_tail", "params": {"sched": sched}, "fork": True, "max_paths": 200, "timeout": to, "weight": 6, "limit": 600, "only": ["C02/*"]})
    split(obs, "vec/step", "ob_vec", {"part": "step"}, GROUPS, timeout=to, weight=5)
    # the same step with the walker's branches explored path by path (forking) instead of merged
    split(obs, "vec/step-forked", "ob_vec", {"part": "step", "fork_ifs": True}, GROUPS[1:], timeout=to, weight=5, fork=True, max_paths=32)
    # ... and after an earlier plan for another record length in the same process (module-level state must not leak)
    split(obs, "vec/step-after-prior-plan", "ob_vec", {"part": "step", "fork_ifs": True, "prior": True}, [GROUPS[1], GROUPS[4]], timeout=min(to, 20), weight=6, fork=True, max_paths=48, limit=(600 if tier == "quick" else 1200))
    if tier == "thorough":
        split(obs, "new/step", "ob_new", {"part": "step"}, GROUPS, timeout=to, weight=5)
    else:
        split(obs, "new/step", "ob_new", {"part": "step"}, GROUPS[:1], timeout=20, weight=5)
    for Ks in ([[1], [2], [3, 1], [2, 2]] if tier == "quick" else [[1], [2], [3], [1, 1], [3, 1], [2, 2], [1, 3], [3, 3]]):
        obs.append({"name": "plan/K%s" % "-".join(map(str, Ks)), "fn": "ob_plan", "params": {"Ks": Ks}, "fork": True, "max_paths": 200, "timeout": to})
    obs.append({"name": "plan/lpsd/K2-1", "fn": "ob_plan", "params": {"Ks": [2, 1], "sched_is_lpsd": True}, "fork": True, "max_paths": 200, "timeout": to})
    # the scheduler given by name, resolved by the constructor's own code, symbolic Lmin (LPSD is exempt from it)
    obs.append({"name": "plan/by-name/lpsd", "fn": "ob_plan_by_name", "params": {"name": "lpsd", "N": 64}, "fork": True, "max_paths": 64, "timeout": to})
    whole_plan_obligations(obs, tier, "C02")
    return obs
