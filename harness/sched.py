"""Scheduler encodings shared by C02, C03, C04: one loop iteration from an arbitrary state, executed
from the current source by the AST interpreter (state merging), + the segmentation code that follows.

Symbolic world: N (Int), fs, olap, bmin, Lmin (Int), Jdes (Int), Kdes (Int) and the loop state are
symbols; (N/2)**(1/Jdes) is an uninterpreted application constrained by the facts listed in POW_FACTS.
Concrete world (replay): the real scheduler is run through the public API on the model's configuration
(and neighbouring Jdes values, because the power is abstracted) and the same property is evaluated on
EVERY bin of the real plans; only a real plan that breaks it is reported.
"""
import ast, math, copy
from fractions import Fraction as F
import numpy as rnp
import z3

from symx import ctx, astx
from symx.proxy import SR, SB, ite, toreal, tz, Unsupported
from symx.shim import NumpyShim, MathShim, make_builtins, oarr, SymNd, SYM_BUILTINS, _map
from symx.proxy import is_sym as is_sym_

POW_FACTS = "p=(N/2)**(1/Jdes): 1<p<=N/2; Jdes=1 => p=N/2; Jdes>=2 => p*p<=N/2; Jdes>=3 => p^3<=N/2"


def S():
    import speckit.schedulers as S_
    return S_


def config(W, need_state=True):
    N = W.int("N", lo=8)
    fs = W.real("fs"); olap = W.real("olap"); bmin = W.real("bmin")
    Lmin = W.int("Lmin", lo=1); Jdes = W.int("Jdes", lo=1); Kdes = W.int("Kdes", lo=1)
    if W.sym:
        W.assume(fs > 0); W.assume(olap >= 0); W.assume(olap < 1); W.assume(bmin >= 1); W.assume(bmin * 2 < N); W.assume(Lmin <= N)
        q = z3.Int("nice!q"); qb = z3.Int("nice!qb")
        W.nice += [olap.t * 8 == z3.ToReal(q), fs.t == 1, bmin.t * 2 == z3.ToReal(qb), N.t <= 64, Kdes.t <= 64, Jdes.t <= 64]
        q2 = z3.Int("tiny!q"); qb2 = z3.Int("tiny!qb")
        W.tiny += [olap.t * 2 == z3.ToReal(q2), fs.t == 1, bmin.t == z3.ToReal(qb2), bmin.t <= 4, N.t <= 16, Kdes.t <= 8, Jdes.t <= 8, Lmin.t <= 4]
    return dict(N=N, fs=fs, olap=olap, bmin=bmin, Lmin=Lmin, Jdes=Jdes, Kdes=Kdes)


def add_pow_facts(W, cfg):
    run = W.run
    N, J = toreal(cfg["N"].t), cfg["Jdes"].t
    for app in run.uapps.get("pow", []):
        base, ex, p = app
        run.side += [p > 1, p <= N / 2, z3.Implies(J == 1, p == N / 2), z3.Implies(J >= 2, p * p <= N / 2), z3.Implies(J >= 3, p * p * p <= N / 2),
                     z3.Implies(J == 2, p * p == N / 2), z3.Implies(J == 3, p * p * p == N / 2)]


def glob_for(module, extra=None):
    from symx.shim import SymDict
    g = dict(module.__dict__)
    for _n, _o in list(g.items()):           # module-level tables/caches: private copies (symbolic keys allowed)
        if not _n.startswith("__") and type(_o) is dict:
            g[_n] = SymDict(_o)
        elif not _n.startswith("__") and isinstance(_o, (list, set)):
            g[_n] = type(_o)(_o)
    NP = NumpyShim(**(extra or {}).pop("np_over", {})) if extra and "np_over" in extra else NumpyShim()
    g.update(np=NP, math=MathShim())
    g.update(SYM_BUILTINS)
    g["range"] = astx.sym_range
    if extra:
        g.update(extra)
    return g


def split_body(fd):
    """(prefix statements, the main while, statements after it) of a scheduler function"""
    body = [n for n in fd.body if not (isinstance(n, ast.Expr) and isinstance(n.value, ast.Constant))]
    loops = [i for i, n in enumerate(body) if isinstance(n, ast.While)]
    if not loops:
        # the harness drives ONE iteration of the scheduler's main loop from an arbitrary state; a scheduler whose loop lives elsewhere
        # cannot be driven that way -- reported as inconclusive (not an alarm)
        raise Unsupported("no top-level `while` loop in %s: the one-iteration harness does not apply to this code shape" % fd.name)
    iw = loops[0]
    return body[:iw], body[iw], body[iw + 1:]


def rhu_summary(I, env, W):
    """prove round_half_up(v) == floor(v+1/2) for the nested helper, over v=n+t; on success use the summary at call sites"""
    from symx import solve
    rh = env.get("round_half_up")
    if rh is None:
        return False
    n = z3.Int("rhu!n"); t = z3.Real("rhu!t")
    v = SR(z3.ToReal(n) + t)
    saved = (list(W.run.vcs), list(W.run.side))
    try:
        out = rh(v)
    except Exception:
        return False
    out_t = tz(out.trunc() if isinstance(out, SR) else out)
    goal = out_t == z3.ToInt(v.t + z3.RealVal("1/2"))
    r = solve.check(W.run.side + [t >= 0, t < 1, z3.Not(goal)], timeout=10, want_model=False, portfolio=False)
    W.run.vcs[:], W.run.side[:] = saved
    if r["verdict"] == "unsat":
        env["round_half_up"] = lambda a: SR(z3.ToInt(toreal(tz(a)) + z3.RealVal("1/2")))
        W.note("summary round_half_up(v)=floor(v+1/2) proved (%.2fs) and used at call sites" % r["time"])
        return True
    W.note("round_half_up summary not provable (%s): helper inlined" % r["verdict"])
    return False


# ============================================================================ ltf / lpsd
def ltf_step(W, cfg, bound=None, use_lpsd=False, prior=False):
    """returns dict of symbolic step results for ltf_plan (through lpsd_plan when use_lpsd)
    prior=True: an earlier plan (another record) has been computed by the same module copy before"""
    Sm = S()
    fd = astx.get_function_ast(Sm.ltf_plan)
    pre, wh, post = split_body(fd)
    I = astx.Interp(glob_for(Sm), loop_bound=bound or 4)
    args = dict(cfg)
    if use_lpsd:
        # run the real lpsd_plan wrapper with ltf_plan replaced by a recorder of the forwarded keywords
        rec = {}
        from symx.shim import clone
        lp = clone(Sm.lpsd_plan, ltf_plan=lambda **kw: rec.update(kw) or {"rec": True})
        lp(**args)
        args = rec
    if prior:
        lb = I.loop_bound
        I.loop_bound = 64
        astx._Closure(I, fd, {})(**PRIOR)
        I.loop_bound = lb
        I.trace.clear(); I.unwind.clear()
    env = {"args": args}
    env = I.block(pre, env)
    rhu_summary(I, env, W)
    add_pow_facts(W, cfg)
    # the loop variable is whatever the `while <var> < ...` test reads (no reliance on local names)
    lv = [n.id for n in ast.walk(wh.test) if isinstance(n, ast.Name) and n.id in env and isinstance(env[n.id], SR)]
    if not lv:
        raise Unsupported("cannot identify the loop variable of the scheduler's main loop")
    loopvar = lv[0]
    f_init = env[loopvar]
    fi = W.real("fi")
    W.assume(fi >= f_init)
    env["__loopvar__"], env["__f_init__"] = loopvar, f_init
    env[loopvar] = fi
    guard = I.ev(wh.test, env)
    W.assume(guard)
    env1 = I.block(wh.body, env)
    add_pow_facts(W, cfg)
    return I, env, env1, post, args


# ---------------------------------------------------------------------------- the last iterations of the main loop, path by path
def ob_ltf_tail(W, sched):
    """one execution of the loop body from an arbitrary state within three minimal resolutions (3*fs/N) of the end of the band, in fork
    mode (every `if` and every integer the code needs is decided per path): however many bins that execution emits -- one, or the whole
    remaining tail in one go followed by `break` -- each of them satisfies the per-bin grid clauses, in particular f < fs/2"""
    cfg = config(W)
    if not W.sym:
        return concrete_goals(W, sched, cfg, _GOALS["tail"])
    Sm = S()
    fd = astx.get_function_ast(Sm.ltf_plan)
    pre, wh, post = split_body(fd)
    I = astx.Interp(glob_for(Sm), loop_bound=4)
    args = dict(cfg)
    if sched == "lpsd":
        rec = {}
        from symx.shim import clone
        clone(Sm.lpsd_plan, ltf_plan=lambda **kw: rec.update(kw) or {"rec": True})(**args)
        args = rec
    env = I.block(pre, {"args": args})
    rhu_summary(I, env, W)
    add_pow_facts(W, cfg)
    lv = [n.id for n in ast.walk(wh.test) if isinstance(n, ast.Name) and n.id in env and isinstance(env[n.id], SR)]
    if not lv:
        raise Unsupported("cannot identify the loop variable of the scheduler's main loop")
    loopvar = lv[0]
    N, fs = cfg["N"], cfg["fs"]
    fi = W.real("fi")
    W.assume(fi >= env[loopvar])
    env[loopvar] = fi
    W.assume(I.ev(wh.test, env))
    W.assume((fs / 2 - fi) * N <= fs * 3)
    I.fork_ifs = True
    W.run.concretize_ints = True
    try:
        env1 = I.block(wh.body, env)
        broke = False
    except astx._Break as b:
        env1, broke = b.env, True
    add_pow_facts(W, cfg)
    I.fork_ifs = False
    out = run_post(W, I, dict(env1), post, 3)
    f, r, b, L = out["f"], out["r"], out["b"], out["L"]
    n = len(f)
    W.goal("C03/tail:emits-at-least-one-bin", n >= 1)
    if n:
        W.goal("C03/tail:first emitted frequency is the state", W.eq(f[0], fi))
    for j in range(n):
        Lj = SR(tz(L[j]))
        W.goal("C03/tail:f<nyquist", f[j] * 2 < fs, bin=j, emitted=n)
        W.goal("C03/tail:r*L=fs", W.eq(r[j] * Lj, fs), bin=j)
        W.goal("C03/tail:b=f*L/fs", W.eq(b[j], f[j] * Lj / fs), bin=j)
        W.goal("C02/tail:L-range", W.And(Lj >= 1, Lj <= N), bin=j)
        if j + 1 < n:
            W.goal("C03/tail:next=f+r", W.eq(f[j + 1], f[j] + r[j]), bin=j)
    if broke and n:
        # leaving the loop early is only right when the grid is complete: the successor of the last emitted bin is beyond the band
        W.goal("C03/tail:early exit only at the end of the band", (f[n - 1] + r[n - 1]) * 2 >= fs)


# ---------------------------------------------------------------------------- whole plans at a small concrete record length
def ob_whole_plan(W, sched, N, Jdes, Lmin, fs_value=None):
    """the WHOLE scheduler function executed path by path (fork mode: every branch and loop test decided per path) for a small concrete
    record length N, concrete Jdes with (N/2)**(1/Jdes) exact and concrete Lmin, and SYMBOLIC fs, olap, bmin, Kdes: every per-bin clause
    of C02/C03/C04 on the returned plan.  Independent of the shape of the code (no cut points, no loop-body harness): this is what
    reaches bulk emission of several bins, early exits and fast paths; the step obligations cover unbounded N."""
    fs = W.real("fs"); olap = W.real("olap"); bmin = W.real("bmin"); Kdes = W.int("Kdes", lo=1, hi=6)
    if fs_value is not None:
        fs = (SR(z3.RealVal(str(F(fs_value)))) if W.sym else float(fs_value))     # concrete sampling rate (the symbolic one makes every term a quotient)
    cfg = dict(N=N, fs=fs, olap=olap, bmin=bmin, Lmin=Lmin, Jdes=Jdes, Kdes=Kdes)
    if not W.sym:
        kw = dict(N=N, fs=float(fs), olap=float(olap), bmin=float(bmin), Lmin=Lmin, Jdes=Jdes, Kdes=int(Kdes))
        if not (kw["fs"] > 0 and 0 <= kw["olap"] < 1 and 1 <= kw["bmin"] < N / 2):
            return
        fn = getattr(S(), {"ltf": "ltf_plan", "lpsd": "lpsd_plan", "vec": "vectorized_ltf_plan"}[sched])
        rec = {"kw": kw, "bmin_eff": 1.0 if sched == "lpsd" else kw["bmin"], "Lmin_eff": 1 if sched == "lpsd" else Lmin}
        try:
            rec["plan"] = fn(**kw)
        except Exception as e:
            rec["raised"] = repr(e)
        res = plan_checks(rec, sched)
        W.resolver = lambda name: res.get(ALIAS.get(name, name), res.get(name))
        for k, v in res.items():
            W.goal(k, v)
        return
    W.assume(fs > 0); W.assume(olap >= 0); W.assume(olap < 1); W.assume(bmin >= 1); W.assume(bmin * 2 < N)
    W.nice += [olap.t * 8 == z3.ToReal(z3.Int("nice!q")), bmin.t * 4 == z3.ToReal(z3.Int("nice!qb"))]
    Sm = S()
    name = {"ltf": "ltf_plan", "lpsd": "lpsd_plan", "vec": "vectorized_ltf_plan"}[sched]
    G = glob_for(Sm)
    I = astx.Interp(G, loop_bound=64)
    I.fork_ifs = True
    W.run.concretize_ints = True
    W.run.concrete_masks = True          # comparisons of arrays are decided element by element: masks are ordinary boolean arrays on each path
    from symx import solve as _solve
    _solve.INPROC["on"] = True
    # same-module callees (lpsd_plan -> ltf_plan, helpers) are interpreted too
    for nm, obj in list(vars(Sm).items()):
        if callable(obj) and getattr(obj, "__module__", None) == Sm.__name__ and hasattr(obj, "__code__"):
            try:
                G[nm] = astx._Closure(I, astx.get_function_ast(obj), {})
            except Exception:
                pass
    p = G[name](**cfg)
    bmin_e, Lmin_e = (1, 1) if sched == "lpsd" else (bmin, Lmin)
    f, r, b, L, K, navg, D, O = (p[k] for k in ("f", "r", "b", "L", "K", "navg", "D", "O"))
    nf = len(f)
    W.goal("C02/noraise", True)
    W.goal("C03/f0=bmin*fs/N", nf > 0 and W.eq(f[0], bmin_e * fs / N))
    xov = 1 - olap
    for j in range(nf):
        Lj, Kj = int(L[j]), int(K[j])
        d = [int(v) for v in D[j]]
        W.goal("C02/L-range", max(1, Lmin_e) <= Lj <= N, bin=j)
        W.goal("C02/K=navg=len(D)", Kj >= 1 and Kj == int(navg[j]) == len(d), bin=j)
        W.goal("C02/K=1=>L=N", Kj != 1 or Lj == N, bin=j)
        W.goal("C02/starts-in-range", len(d) > 0 and min(d) >= 0 and max(d) + Lj <= N and d[0] == 0, bin=j)
        W.goal("C02/starts-increasing", all(d[i + 1] > d[i] for i in range(len(d) - 1)), bin=j)
        W.goal("C02/last-start=N-L", len(d) <= 1 or d[-1] == N - Lj, bin=j)
        W.goal("C03/r*L=fs", W.eq(r[j] * Lj, fs), bin=j)
        W.goal("C03/b=f*L/fs", W.eq(b[j], f[j] * Lj / fs), bin=j)
        W.goal("C03/f<nyquist", f[j] * 2 < fs, bin=j)
        if j + 1 < nf:
            W.goal("C03/next=f+r", W.eq(f[j + 1], f[j] + r[j]), bin=j)
            W.goal("C04/L-nonincreasing", int(L[j + 1]) <= Lj, bin=j)
            W.goal("C04/K-nondecreasing", int(K[j + 1]) >= Kj, bin=j)
        ideal = 1 + (N - Lj) / (xov * Lj)
        cap = N - Lj + 1
        W.goal("C04/K=nearest(capped)", W.Or(W.And(Kj == cap, ideal + HALF >= cap), W.And(Kj <= cap, Kj - ideal <= HALF, ideal - Kj <= HALF)), bin=j)
        if len(d) > 1:
            sh = F(N - Lj, len(d) - 1)
            W.goal("C04/even-spread", all(abs(d[i] - i * sh) <= F(1, 2) for i in range(len(d))), bin=j)
            real_o = (Lj - F(d[-1] - d[0], len(d) - 1)) / Lj
            W.goal("C04/O=realised-overlap", W.eq(O[j], real_o), bin=j)
        else:
            W.goal("C04/O=realised-overlap", W.eq(O[j], 0), bin=j)
    # the loop stops only when the next state is beyond Nyquist: the last bin's successor is >= fs/2 (completeness of the grid)
    if nf:
        W.goal("C03/grid-reaches-nyquist", (f[nf - 1] + r[nf - 1]) * 2 >= fs)


# ---------------------------------------------------------------------------- monotonicity of the step map, proved as a chain
def _rounding_cuts(body):
    """indices of the top-level statements `name = ...int/round...(...)` of the loop body, with the loop-assigned names each one reads"""
    cuts = []
    assigned = set()
    for i, st in enumerate(body):
        if isinstance(st, ast.Assign) and len(st.targets) == 1 and isinstance(st.targets[0], ast.Name):
            calls = [c for c in ast.walk(st.value) if isinstance(c, ast.Call) and isinstance(c.func, ast.Name) and c.func.id in ("int", "round", "round_half_up", "_round_half_up")]
            if calls:
                reads = sorted({n.id for n in ast.walk(st.value) if isinstance(n, ast.Name) and n.id in assigned})
                cuts.append((i, st.targets[0].id, reads))
        for n in ast.walk(st):
            if isinstance(n, ast.Name) and isinstance(n.ctx, ast.Store):
                assigned.add(n.id)
    return cuts


def ob_mono_chain(W, sched, seg, split=None):
    """L never increases and K never decreases along a plan <= the step map (one loop iteration, state fi -> (L, K)) is monotone in fi
    (the next state is fi + r with r > 0: C03).  Two independent copies of the iteration from arbitrary states fi <= fi2 are compared;
    because the whole body is beyond the solvers in one query (sqrt, two roundings, division), the body is cut at its two rounding
    statements and each piece is proved for ARBITRARY values of the one quantity crossing the cut:
      A  [start .. first rounding)   : the resolution-like quantity v feeding the first rounding is positive and non-decreasing in fi
      B  [first .. second rounding)  : v2 >= v1 > 0 arbitrary  =>  the length-like quantity m read by the second rounding satisfies m2 <= m1, 1 <= m <= N
      C  [second rounding .. end]    : m2 <= m1 arbitrary in [1, N]  =>  L2 <= L1 and K2 >= K1
    A and B are posed as lemmas: a counterexample there starts from a pre-state no run need reach and is only reported if a real plan
    of the model's configuration is non-monotone (replay); C carries the property's goals."""
    cfg = config(W)
    if not W.sym:
        return concrete_goals(W, sched, cfg, _GOALS["mono"])
    Sm = S()
    fd = astx.get_function_ast(Sm.ltf_plan)
    pre, wh, post = split_body(fd)
    I = astx.Interp(glob_for(Sm), loop_bound=4)
    args = dict(cfg)
    if sched == "lpsd":
        rec = {}
        from symx.shim import clone
        clone(Sm.lpsd_plan, ltf_plan=lambda **kw: rec.update(kw) or {"rec": True})(**args)
        args = rec
    env = I.block(pre, {"args": args})
    rhu_summary(I, env, W)
    add_pow_facts(W, cfg)
    lv = [n.id for n in ast.walk(wh.test) if isinstance(n, ast.Name) and n.id in env and isinstance(env[n.id], SR)]
    if not lv:
        raise Unsupported("cannot identify the loop variable of the scheduler's main loop")
    loopvar = lv[0]
    body = list(wh.body)
    cuts = _rounding_cuts(body)
    if len(cuts) < 2 or len(cuts[0][2]) != 1 or len(cuts[1][2]) != 1:
        raise Unsupported("loop body does not have the two rounding statements (length, averages) the chain is cut at")
    (iL, nameL, (v,)), (iK, nameK, (m,)) = cuts[0], cuts[1]
    if m != nameL:
        raise Unsupported("the second rounding does not read the result of the first")
    N = cfg["N"]
    f1 = W.real("fi"); f2 = W.real("fi2")
    W.assume(f1 >= env[loopvar]); W.assume(f2 >= f1)
    e1, e2 = dict(env), dict(env)
    e1[loopvar], e2[loopvar] = f1, f2
    W.assume(I.ev(wh.test, e1)); W.assume(I.ev(wh.test, e2))

    def run(a, b, ea, eb):
        ra, rb = I.block(body[a:b], dict(ea)), I.block(body[a:b], dict(eb))
        add_pow_facts(W, cfg)
        return ra, rb
    if seg == "A":
        j = split if split is not None else iL
        ra, rb = run(0, j, e1, e2)
        if v not in ra:
            raise Unsupported("the quantity feeding the first rounding is not assigned in the first %d statements" % j)
        tag = "" if split is None else "1"
        W.aux_goal("C04/chain-A%s:resolution>0" % tag, W.And(ra[v] > 0, rb[v] > 0))
        W.aux_goal("C04/chain-A%s:resolution nondecreasing in f" % tag, rb[v] >= ra[v])
        return
    if seg == "A2":
        # second half of A from an arbitrary pair of positive, ordered resolutions
        j = split
        v1, v2 = W.real("v1"), W.real("v2")
        W.assume(v1 > 0); W.assume(v2 >= v1)
        e1[v], e2[v] = v1, v2
        ra, rb = run(j, iL, e1, e2)
        W.aux_goal("C04/chain-A2:resolution>0", W.And(ra[v] > 0, rb[v] > 0))
        W.aux_goal("C04/chain-A2:resolution nondecreasing in f", rb[v] >= ra[v])
        return
    if seg == "B":
        v1, v2 = W.real("v1"), W.real("v2")
        W.assume(v1 > 0); W.assume(v2 >= v1)
        e1[v], e2[v] = v1, v2
        ra, rb = run(iL, iK, e1, e2)
        W.aux_goal("C04/chain-B:1<=length<=N", W.And(ra[m] >= 1, ra[m] <= N, rb[m] >= 1, rb[m] <= N))
        W.aux_goal("C04/chain-B:length nonincreasing in resolution", rb[m] <= ra[m])
        return
    if seg == "C":
        m1, m2 = W.int("m1", lo=1), W.int("m2", lo=1)
        W.assume(m1 <= N); W.assume(m2 <= m1)
        e1[m], e2[m] = m1, m2
        ra, rb = run(iK, len(body), e1, e2)
        W.goal("C04/L-nonincreasing", rb[nameL] <= ra[nameL])
        W.goal("C04/K-nondecreasing", rb[nameK] >= ra[nameK])
        return
    raise ValueError(seg)


def ltf_segmentation(W, I, env1, post, bound):
    """statements after the while (nf, per-bin averages and starts) on the single appended bin; the
    start loop is unrolled `bound` times (iteration k guarded by k<averages) with an unwinding assertion"""
    I.loop_bound = bound
    stmts = []
    for n in post:
        if isinstance(n, ast.Assign) and ast.unparse(n.targets[0]) == "O_arr":
            break
        stmts.append(n)
    env2 = I.block(stmts, env1)
    return env2


def starts_of(glist):
    out = []
    for e in glist:
        if isinstance(e, astx.Guarded):
            out.append((e.g, e.v))
        else:
            out.append((z3.BoolVal(True), e))
    return out


# ============================================================================ concrete side
SCHED = {"ltf": "ltf_plan", "lpsd": "lpsd_plan", "vec": "vectorized_ltf_plan", "new": "new_ltf_plan"}


def real_plans(W, sched, cfg, extra_J=(1, 2, 3, 5, 10, 25, 60)):
    """real plans for the model's configuration and neighbouring Jdes values; each through the scheduler AND SpectrumAnalyzer.plan()"""
    Sm = S()
    N, fs, olap, bmin, Lmin, Kdes, Jm = int(cfg["N"]), float(cfg["fs"]), float(cfg["olap"]), float(cfg["bmin"]), int(cfg["Lmin"]), int(cfg["Kdes"]), int(cfg["Jdes"])
    if not (N >= 8 and fs > 0 and 0 <= olap < 1 and 1 <= bmin < N / 2 and 1 <= Lmin <= N and Kdes >= 1 and Jm >= 1):
        return []
    if sched == "lpsd":
        bmin_eff, Lmin_eff = 1.0, 1
    else:
        bmin_eff, Lmin_eff = bmin, Lmin
    Js = []
    for j in (Jm,) + tuple(extra_J):
        if j >= 1 and j not in Js and j <= 2000:
            Js.append(j)
    out = []
    f = getattr(Sm, SCHED[sched])
    cfgs = [dict(N=N, fs=fs, olap=olap, bmin=bmin, Lmin=Lmin, Jdes=J, Kdes=Kdes, _primary=True) for J in Js[:8]]
    if N <= 64:
        # grids that land exactly on Nyquist need an even record length and a linear grid (Lmin = N)
        for Nn in (N, N + 1):
            for bm in (bmin, 1.0, 2.0):
                if bm * 2 < Nn:
                    cfgs.append(dict(N=Nn, fs=fs, olap=olap, bmin=bm, Lmin=Nn, Jdes=Jm, Kdes=Kdes))
                    cfgs.append(dict(N=Nn, fs=fs, olap=0.0, bmin=bm, Lmin=1, Jdes=10, Kdes=100))
    if N <= 64 and sched != "lpsd":
        # the abstracted power / arbitrary loop state may not be hit by the model's own configuration: scan the
        # family that forces every segment length (Lmin clamps the high-frequency bins to L=Lmin)
        for Lm in range(1, N + 1):
            for J in (Jm, 3, 12):
                cfgs.append(dict(N=N, fs=fs, olap=olap, bmin=bmin, Lmin=Lm, Jdes=J, Kdes=Kdes))
    elif N <= 64:
        for J in range(1, 40):
            cfgs.append(dict(N=N, fs=fs, olap=olap, bmin=bmin, Lmin=Lmin, Jdes=J, Kdes=Kdes))
    seen = set()
    for kw in cfgs:
        prim = kw.pop("_primary", False)
        key = tuple(sorted(kw.items()))
        if key in seen:
            continue
        seen.add(key)
        rec = {"kw": kw, "bmin_eff": 1.0 if sched == "lpsd" else kw["bmin"], "Lmin_eff": 1 if sched == "lpsd" else kw["Lmin"], "primary": prim}
        try:
            rec["plan"] = f(**kw)
        except BaseException as e:   # sys.exit included
            rec["raised"] = "%s: %s" % (type(e).__name__, e)
        out.append(rec)
    return out


def analyzer_plan(kw, sched):
    """SpectrumAnalyzer.plan() for the configuration; returns None or the exception text"""
    import speckit.analysis as A
    name = {"ltf": "ltf", "lpsd": "lpsd", "vec": "vectorized_ltf", "new": "new_ltf"}[sched]
    try:
        a = A.SpectrumAnalyzer(rnp.zeros(kw["N"]), kw["fs"], olap=kw["olap"], bmin=kw["bmin"], Lmin=kw["Lmin"], Jdes=kw["Jdes"], Kdes=kw["Kdes"], scheduler=name, win="hann")
        a.plan()
        return None
    except BaseException as e:
        return "%s: %s" % (type(e).__name__, str(e)[:200])


def plan_checks(rec, sched):
    """evaluate every per-bin clause of C02/C03/C04 on one real plan; returns {goal-name: bool}"""
    res = {}
    kw = rec["kw"]
    N, fs, olap = kw["N"], kw["fs"], kw["olap"]
    bmin, Lmin = rec["bmin_eff"], rec["Lmin_eff"]
    if "raised" in rec:
        res["C02/noraise"] = False
        return res
    res["C02/noraise"] = True
    p = rec["plan"]
    f, r, b, L, K, navg, D, O = (rnp.asarray(p[k]) if k != "D" else p[k] for k in ("f", "r", "b", "L", "K", "navg", "D", "O"))
    nf = len(f)
    tol = 1e-9

    def allb(name, cond):
        res[name] = bool(res.get(name, True) and cond)
    for j in range(nf):
        Lj, Kj = int(L[j]), int(K[j])
        d = rnp.asarray(D[j]).astype(int)
        allb("C02/L-range", max(1, Lmin) <= Lj <= N)
        allb("C02/K>=1", Kj >= 1 and len(d) >= 1)
        allb("C02/K=navg=len(D)", Kj == int(navg[j]) == len(d))
        allb("C02/K=1=>L=N", (Kj != 1) or Lj == N)
        allb("C02/starts-in-range", len(d) > 0 and d.min() >= 0 and d.max() + Lj <= N)
        allb("C02/first-start=0", len(d) > 0 and d[0] == 0)
        allb("C02/starts-increasing", bool(rnp.all(rnp.diff(d) > 0)))
        allb("C02/last-start=N-L", len(d) <= 1 or d[-1] == N - Lj)
        allb("C03/r*L=fs", abs(r[j] * Lj - fs) <= tol * fs)
        allb("C03/b=f*L/fs", abs(b[j] - f[j] * Lj / fs) <= tol * max(1.0, abs(b[j])))
        allb("C03/f<nyquist", f[j] < fs / 2)
        allb("C03/r>0", r[j] > 0)
        if j + 1 < nf:
            allb("C03/next=f+r", abs(f[j + 1] - (f[j] + r[j])) <= tol * fs)
        allow = f[j] / (2 * fs)
        if sched == "vec":
            rho = (fs / 2 / (bmin * fs / N)) ** (1.0 / max(1, int(10 * kw["Jdes"]) - 1))
            allb("C03/b>=bmin-allowance", b[j] >= bmin / rho - allow - tol)
        else:
            allb("C03/b>=bmin-allowance", b[j] >= bmin - allow - tol)
        ideal = 1 + (N - Lj) / ((1 - olap) * Lj)
        cap = N - Lj + 1
        near = min(cap, math.floor(ideal + 0.5 + 1e-9)), min(cap, math.ceil(ideal - 0.5 - 1e-9))
        allb("C04/K=nearest(capped)", Kj in near or Kj == min(cap, round(ideal)))
        if len(d) > 1:
            shift = (N - Lj) / (len(d) - 1)
            allb("C04/even-spread", bool(rnp.all(rnp.abs(d - rnp.arange(len(d)) * shift) <= 0.5 + 1e-9)))
            real_o = (Lj - rnp.mean(rnp.diff(d))) / Lj
            allb("C04/O=realised-overlap", abs(O[j] - real_o) <= 1e-9 + 1e-9 * abs(real_o))
        else:
            allb("C04/O=realised-overlap", abs(O[j]) <= 1e-12)
        if j + 1 < nf:
            allb("C04/L-nonincreasing", int(L[j + 1]) <= Lj)
            allb("C04/K-nondecreasing", int(K[j + 1]) >= Kj)
    allb("C03/f0=bmin*fs/N", nf > 0 and abs(f[0] - bmin * fs / N) <= tol * fs)
    if sched == "lpsd":
        try:
            q = S().ltf_plan(**dict(kw, bmin=1.0, Lmin=1))
            same = len(q["f"]) == nf and bool(rnp.allclose(q["f"], f)) and list(map(int, q["L"])) == list(map(int, L)) and list(map(int, q["K"])) == list(map(int, K))
        except BaseException:
            same = False
        allb("C03/lpsd=ltf(bmin=1,Lmin=1)", same)
    if rec.get("primary"):
        res["C02/analyzer-accepts"] = analyzer_plan(kw, sched) is None
    return res


def concrete_goals(W, sched, cfg, names):
    """replay: a goal fails concretely when some real plan of the model's configuration family breaks it"""
    recs = real_plans(W, sched, cfg)
    agg = {}
    for rec in recs:
        for k, v in plan_checks(rec, sched).items():
            agg[k] = agg.get(k, True) and v
    def resolve(nm):
        base = nm.split("#")[0].split("~")[0]
        if base in agg:
            return agg[base]
        if ALIAS.get(base) in agg:
            return agg[ALIAS[base]]
        if base.startswith("C02/defined") or base.startswith("C02/vc"):
            return agg.get("C02/noraise", True)
        return None
    W.resolver = resolve
    W.note("replayed on %d real plans" % len(recs))


# ============================================================================ generic post-loop view
HALF = F(1, 2)


def run_post(W, I, env1, post, bound):
    """execute everything after the main loop (per-bin averages, starts, overlaps, packaging) on the single bin that the
    one executed iteration appended; returns the dict the scheduler returns"""
    I.loop_bound = bound
    try:
        I.block(post, env1)
    except astx._Return as r:
        return r.v
    raise Unsupported("scheduler did not return")


class DView:
    """segment starts of bin 0 as (condition, index term, value term) triples, whatever the representation:
    a list built by an unrolled loop (guarded appends) or the generic-element array [0, m, m+1, K-1]"""

    def __init__(self, W, D0, count):
        self.count = tz(count)
        self.tr = []
        run = W.run
        gens = getattr(run, "gen_aranges", [])
        items = list(D0) if not isinstance(D0, rnp.ndarray) else list(D0.reshape(-1))
        if items and all(isinstance(e, (int, rnp.integer)) for e in items):
            # a concrete start array (e.g. served from a memo table): its length must be the reported count
            self.kind = "unrolled"
            for i, e in enumerate(items):
                self.tr.append((z3.BoolVal(True), z3.IntVal(i), z3.IntVal(int(e))))
            self.len_ok = (self.count == len(items))
        elif any(isinstance(e, astx.Guarded) for e in items) or not gens:
            self.kind = "unrolled"
            for i, e in enumerate(items):
                g, v = (e.g, e.v) if isinstance(e, astx.Guarded) else (z3.BoolVal(True), e)
                self.tr.append((g, z3.IntVal(i), tz(v)))
            # the list has exactly `count` live entries
            self.len_ok = z3.And(*[g == (self.count > i) for i, (g, _, _) in enumerate(self.tr)]) if self.tr else (self.count == 0)
        else:
            self.kind = "generic"
            cnt, m = gens[-1]
            if len(items) != 4:
                raise Unsupported("generic arange result of unexpected length %d" % len(items))
            conds = [cnt >= 1, cnt >= 2, cnt >= 2, cnt >= 1]
            idxs = [z3.IntVal(0), m, m + 1, cnt - 1]
            for c, ix, v in zip(conds, idxs, items):
                self.tr.append((c, ix, tz(v)))
            self.len_ok = (cnt == self.count)

    def pairs(self):
        if self.kind == "unrolled":
            return [(self.tr[i], self.tr[i + 1]) for i in range(len(self.tr) - 1)]
        return [(self.tr[1], self.tr[2])]


def seg_goals(W, out, cfg, Lmin, which, shift=None):
    """clauses of C02/C04 about the segmentation of the (single) bin in the returned plan"""
    N, olap = cfg["N"], cfg["olap"]
    L, K, navg = out["L"][0], out["K"][0], out["navg"][0]
    L, K, navg = (SR(tz(v)) for v in (L, K, navg))
    D = DView(W, out["D"][0], navg)
    Nt, Lt, Kt = N.t, L.t, K.t
    if shift is not None and D.kind == "generic":
        # proved stepping stones for the nonlinear start arithmetic (each is a goal first, then available to later goals)
        s = toreal(tz(shift))
        cnt, m = W.run.gen_aranges[-1]
        W.lemma("C02/lemma:shift*(K-1)=N-L", z3.Implies(Kt > 1, s * toreal(Kt - 1) == toreal(Nt - Lt)))
        W.lemma("C02/lemma:shift>=0", s >= 0)
        W.lemma("C02/lemma:shift>=1", z3.Implies(Kt > 1, s >= 1))
        W.lemma("C02/lemma:m*shift<=N-L", z3.Implies(cnt >= 2, z3.And(toreal(m) * s <= toreal(Nt - Lt), toreal(m + 1) * s <= toreal(Nt - Lt), toreal(m) * s >= 0)))
        # the instance the last start needs: at the last index the ideal position is exactly N-L (an integer)
        W.lemma("C02/lemma:(K-1)*shift=N-L at the last index", z3.And(*[z3.Implies(z3.And(c, ix == Kt - 1, Kt > 1), toreal(ix) * s == toreal(Nt - Lt)) for c, ix, v in D.tr]))
    if "C02" in which:
        W.goal("C02/K=navg=len(D)", z3.And(Kt == navg.t, D.len_ok))
        W.goal("C02/K>=1", Kt >= 1)
        W.goal("C02/K=1=>L=N", z3.Implies(Kt == 1, Lt == Nt))
        W.goal("C02/L-range", z3.And(Lt >= tz(Lmin), Lt >= 1, Lt <= Nt))
        W.goal("C02/starts-in-range", z3.And(*[z3.Implies(c, z3.And(v >= 0, v + Lt <= Nt)) for c, ix, v in D.tr]))
        W.goal("C02/first-start=0", z3.And(*[z3.Implies(z3.And(c, ix == 0), v == 0) for c, ix, v in D.tr]))
        W.goal("C02/starts-increasing", z3.And(*[z3.Implies(z3.And(c1, c2), v2 > v1) for (c1, i1, v1), (c2, i2, v2) in D.pairs()]) if D.pairs() else z3.BoolVal(True))
        W.goal("C02/last-start=N-L", z3.And(*[z3.Implies(z3.And(c, ix == Kt - 1, Kt > 1), v == Nt - Lt) for c, ix, v in D.tr]))
    if "C04" in which:
        W.goal("C04/K<=N-L+1", Kt <= Nt - Lt + 1)
        ideal = SR(toreal(tz(1 + (N - L) / ((1 - olap) * L))))
        cap = N - L + 1
        from symx.shim import s_min
        lo, hi = (ideal + HALF).floor(), (ideal - HALF).ceil()
        W.goal("C04/K=nearest(capped)", W.Or(W.eq(K, s_min(cap, lo)), W.eq(K, s_min(cap, hi))))
        sp = []
        for c, ix, v in D.tr:
            pos = toreal(Nt - Lt) * toreal(ix) / toreal(Kt - 1)
            sp.append(z3.Implies(z3.And(c, Kt > 1), z3.And(toreal(v) - pos <= z3.RealVal("1/2"), pos - toreal(v) <= z3.RealVal("1/2"))))
        W.goal("C04/even-spread", z3.And(*sp))


# ============================================================================ obligations: ltf / lpsd
def ob_ltf(W, sched, part, bound=12, prior=False):
    cfg = config(W)
    if not W.sym:
        if prior:
            try:
                getattr(S(), "%s_plan" % sched)(**{k: v for k, v in PRIOR.items() if sched == "ltf" or k not in ("bmin", "Lmin")})
            except BaseException:
                pass
        return concrete_goals(W, sched, cfg, _GOALS[part])
    try:
        return _ob_ltf_sym(W, sched, part, bound, cfg, prior)
    except (KeyError, IndexError, NameError, AttributeError) as e:
        # the obligation reads the scheduler through its loop variable and its returned plan; anything else it touches
        # (local names used for lemma hints, the shape of the start loop) is optional -- a different code shape is inconclusive
        raise Unsupported("scheduler code shape not recognised by this obligation (%s: %s)" % (type(e).__name__, e))


def _ob_ltf_sym(W, sched, part, bound, cfg, prior=False):
    I, env0, env1, post, args = ltf_step(W, cfg, use_lpsd=(sched == "lpsd"), prior=prior)
    N, fs, olap = cfg["N"], cfg["fs"], cfg["olap"]
    bmin, Lmin = args["bmin"], args["Lmin"]
    loopvar = env0["__loopvar__"]
    fi, fnext = env0[loopvar], env1[loopvar]
    if part in ("step", "regime"):
        import copy as _cp
        Ipost = I
        out = run_post(W, Ipost, dict(env1), post, 3)
        del I.unwind[:]
        L, K, fres, fbin = SR(tz(out["L"][0])), SR(tz(out["K"][0])), out["r"][0], out["b"][0]
    else:
        L, K, fres, fbin = env1["dftlen"], env1["nseg"], env1["fres"], env1["fbin"]
    if part == "step":
        step_goals(W, cfg, dict(L=L, K=K, r=fres, b=fbin, fnext=fnext, fi=fi, fmin=env0["__f_init__"], bmin=bmin, Lmin=Lmin,
                                stored=(out["f"][0], out["r"][0], out["b"][0], SR(tz(out["L"][0])), SR(tz(out["K"][0])))))
        if sched == "lpsd":
            same = all((args[k] is cfg[k]) for k in ("N", "fs", "olap", "Jdes", "Kdes"))
            W.goal("C03/lpsd=ltf(bmin=1,Lmin=1)", same and (not isinstance(args["bmin"], SR)) and args["bmin"] == 1.0 and (not isinstance(args["Lmin"], SR)) and args["Lmin"] == 1 and set(args) == set(cfg))
        return
    if part == "mono":
        # monotonicity of the step map: two INDEPENDENT copies of one iteration from arbitrary states fi <= fi2 (consecutive bins are
        # one instance: the next state is fi + r with r > 0, C03); L(fi2) <= L(fi) and K(fi2) >= K(fi)
        wh = split_body(astx.get_function_ast(S().ltf_plan))[1]
        fi2 = W.real("fi2")
        W.assume(fi2 >= fi)
        envb = dict(env0); envb[loopvar] = fi2
        W.assume(I.ev(wh.test, envb))
        env2 = I.block(wh.body, envb)
        add_pow_facts(W, cfg)
        W.goal("C04/L-nonincreasing", env2["dftlen"] <= L)
        W.goal("C04/K-nondecreasing", env2["nseg"] >= K)
        return
    if part == "twostep":
        wh = split_body(astx.get_function_ast(S().ltf_plan))[1]
        W.assume(I.ev(wh.test, env1))
        n1 = len(I.trace)
        env2 = I.block(wh.body, env1)
        add_pow_facts(W, cfg)
        # stepping stones taken from the assignment trace of the two iterations (names as in the current source; if the
        # code is restructured the hints are simply absent and the final goals are posed without them)
        def marks(tr):
            names = [n for n, _ in tr]
            out = {}
            if "dftlen" in names and "fres" in names and "nseg" in names:
                i_d = names.index("dftlen"); i_n = names.index("nseg")
                fr = [v for n, v in tr[:i_d] if n == "fres"]
                dl = [v for n, v in tr[:i_n] if n == "dftlen"]
                if fr and dl:
                    out = {"fres_pre": fr[-1], "dftlen_pre": dl[-1]}
            return out
        loop_tr = [t for t in I.trace]
        i_first = max(i for i, (n, v) in enumerate(loop_tr[:n1]) if n == "fres" and False) if False else None
        # first iteration = the trace segment produced by ltf_step's body execution: locate it as the last run of names before n1
        body_names = [n for n, _ in loop_tr[n1:]]
        k = len(body_names)
        m1, m2 = marks(loop_tr[n1 - k:n1]), marks(loop_tr[n1:])
        if m1 and m2:
            W.lemma("C04/lemma:resolution-before-rounding-nondecreasing", m2["fres_pre"] >= m1["fres_pre"])
            W.lemma("C04/lemma:length-before-single-segment-rule-nonincreasing", m2["dftlen_pre"] <= m1["dftlen_pre"])
            d1, d2 = m1["dftlen_pre"], m2["dftlen_pre"]
            xov = 1 - olap
            W.lemma("C04/lemma:lengths>=1", W.And(d1 >= 1, d2 >= 1, d1 <= N, d2 <= N))
            W.lemma("C04/lemma:ideal-averages-nondecreasing", (N - d2) / (xov * d2) >= (N - d1) / (xov * d1))
            W.lemma("C04/lemma:nseg-nondecreasing", env2["nseg"] >= K)
        W.goal("C04/L-nonincreasing", env2["dftlen"] <= L)
        W.goal("C04/K-nondecreasing", env2["nseg"] >= K)
        return
    if part == "regime":
        regime_goals(W, cfg, env0["logfact"], env0["freslim"], fi, L, K, fres, bmin, Lmin)
        return
    if part == "seg":
        W.assume(N <= bound)
        out = run_post(W, I, env1, post, bound + 1)
        for nm, u in I.unwind:
            W.goal("C02/unwinding:%s" % nm, u)
        W.vc_goals("C02/defined")
        seg_goals(W, out, cfg, Lmin, ("C02", "C04"))
        W.goal("C02/plan-K-is-step-K", W.eq(SR(tz(out["K"][0])), K))
        return
    if part == "seg-generic":
        # N unbounded: the k-th iteration of the start loop from the (proved) loop invariant start = k*shift
        try:
            env, inner = _seg_prefix(W, I, env1, post)
        except Exception as e:
            W.note("start loop not in the expected shape (%s): generic-k obligation skipped, the unrolled one stands" % e)
            W.goal("C02/structure-changed", True)
            return
        avg, shift, Lj = env["averages"], env["shift"], env["L_j"]
        W.vc_goals("C02/defined")
        W.goal("C02/K=navg=len(D)", W.eq(avg, K))
        W.goal("C02/K=1=>L=N", W.Implies(W.eq(avg, 1), W.eq(Lj, N)))
        k = W.int("k", lo=0)
        W.assume(k < avg)
        W.goal("C02/start-loop-base", W.eq(env["start"], 0))
        e = dict(env); e["start"] = shift * k
        e1 = I.block(inner.body, e)
        ist = e1["istart"]
        lst_last = e1["D_arr"][0][-1] if len(e1["D_arr"][0]) else None
        W.goal("C02/start-loop-invariant", W.eq(e1["start"], shift * (k + 1)))
        W.goal("C02/starts-in-range", W.And(ist >= 0, ist + Lj <= N))
        W.goal("C02/first-start=0", W.Implies(W.eq(k, 0), W.eq(ist, 0)))
        W.goal("C02/last-start=N-L", W.Implies(W.And(W.eq(k, avg - 1), avg > 1), W.eq(ist, N - Lj)))
        e2 = I.block(inner.body, e1)
        W.goal("C02/starts-increasing", W.Implies(k + 1 < avg, e2["istart"] > ist))
        W.goal("C04/even-spread", W.Implies(avg > 1, W.And((ist - (N - Lj) * k / (avg - 1)) <= HALF, ((N - Lj) * k / (avg - 1) - ist) <= HALF)))
        W.goal("C02/appended=istart", lst_last is ist or (isinstance(lst_last, astx.Guarded) and lst_last.v is ist))
        return
    raise ValueError(part)


def _seg_prefix(W, I, env1, post):
    forj = [n for n in post if isinstance(n, ast.For)][0]
    before = post[:post.index(forj)]
    env = I.block(before, env1)
    env = dict(env)
    I._bind(forj.target, 0, env)
    inner = [n for n in forj.body if isinstance(n, ast.For)][0]
    env = I.block(forj.body[:forj.body.index(inner)], env)
    for k in ("averages", "shift", "L_j", "start"):
        if k not in env:
            raise KeyError(k)
    return env, inner


def step_goals(W, cfg, s):
    N, fs = cfg["N"], cfg["fs"]
    L, K, r, b, fi = s["L"], s["K"], s["r"], s["b"], s["fi"]
    W.vc_goals("C02/defined")
    W.goal("C02/L-range", W.And(L >= s["Lmin"], L >= 1, L <= N))
    W.goal("C02/K>=1", K >= 1)
    W.goal("C03/r*L=fs", W.eq(r * L, fs))
    W.goal("C03/next=f+r", W.eq(s["fnext"], fi + r))
    W.goal("C03/r>0", r > 0)
    W.goal("C03/b=f*L/fs", W.eq(b, fi * L / fs))
    W.goal("C03/f<nyquist", fi * 2 < fs)
    W.goal("C03/b>=bmin-allowance", b >= s["bmin"] * s.get("rho_inv", 1) - fi / (fs * 2))
    W.goal("C03/f0=bmin*fs/N", W.eq(s["fmin"], s["bmin"] * fs / N))
    st = s["stored"]
    W.goal("C03/stored", W.And(W.eq(st[0], fi), W.eq(st[1], r), W.eq(st[2], b), W.eq(st[3], L), W.eq(st[4], K)))


def regime_goals(W, cfg, logfact, freslim, fi, L, K, fres, bmin, Lmin, half_up=True):
    N, fs, olap = cfg["N"], cfg["fs"], cfg["olap"]
    Ls = fs / (fi * logfact)
    xov = 1 - olap
    W.assume(fi * logfact >= freslim)           # desired averaging attainable
    W.assume(logfact * bmin <= 1)               # bmin clamp inactive
    W.assume(Ls <= N - HALF); W.assume(Ls >= Lmin + HALF); W.assume(Ls >= 1 + HALF)
    W.assume(K != 1)
    W.goal("C04/|L-L*|<=1/2", W.And(L - Ls <= HALF, Ls - L <= HALF))
    # the tie rule of "nearest" is left free by the property: the clause demands the LOWER nearest integer, ceil(y - 1/2); the
    # round-half-up form floor(y + 1/2) (what ltf_plan computes) is tried first as a stepping stone and dropped if it does not hold
    y = 1 + (N - (Ls + HALF)) / (xov * (Ls + HALF))
    from symx.shim import s_min
    if half_up:
        W.lemma("C04/lemma:K>=Kdes-level (round-half-up form)", K >= s_min((y + HALF).floor(), N - L + 1))
    W.goal("C04/K>=Kdes-level", K >= s_min((y - HALF).ceil(), N - L + 1))
    # stepping stones for the last clause (each proved first; posed after the clauses above so that they do not burden those queries):
    # the ideal length times the ideal resolution is fs, the stored resolution times L is fs
    W.lemma("C04/lemma:|L-L*|<=1/2", W.And(L - Ls <= HALF, Ls - L <= HALF))
    W.lemma("C04/lemma:f*logfact*L*=fs", W.eq(fi * logfact * Ls, fs))
    W.lemma("C04/lemma:r*L=fs", W.And(W.eq(fres * L, fs), L >= 1))
    W.lemma("C04/lemma:r*(L*+-1/2) vs fs", W.And(fres * (Ls + HALF) >= fs, fres * (Ls - HALF) <= fs))
    W.goal("C04/r/f=logfact up to rounding", W.And(fres * (Ls + HALF) >= fi * logfact * Ls, fres * (Ls - HALF) <= fi * logfact * Ls))


def ob_ltf_overlap(W, Kn):
    """the reported overlap O is the realised mean overlap of the returned starts (run on a bin with Kn starts)"""
    if not W.sym:
        cfg = config(W)
        return concrete_goals(W, "ltf", cfg, ["C04/O=realised-overlap"])
    Sm = S()
    fd = astx.get_function_ast(Sm.ltf_plan)
    pre, wh, post = split_body(fd)
    I = astx.Interp(glob_for(Sm))
    L = W.int("L", lo=1)
    d = [W.int("d%d" % i) for i in range(Kn)]
    try:
        i0 = [i for i, n in enumerate(post) if isinstance(n, ast.Assign) and ast.unparse(n.targets[0]) == "O_arr"][0]
        forj = [n for n in post[i0:] if isinstance(n, ast.For)][0]
        env = {"D_arr": [astx.GList(d)], "L_arr": [L], "nf": 1}
        env = I.block(post[i0:post.index(forj) + 1], env)
        O = env["O_arr"][0]
    except (IndexError, KeyError, NameError) as e:
        raise Unsupported("the overlap computation is not in the shape this obligation drives (%s: %s)" % (type(e).__name__, e))
    if Kn > 1:
        mean_step = sum((d[i + 1] - d[i]) for i in range(Kn - 1)) / (Kn - 1)
        W.goal("C04/O=realised-overlap", W.eq(O, (L - mean_step) / L))
    else:
        W.goal("C04/O=realised-overlap", W.eq(O, 0))


_VC = ["C02/defined/vc%d:%s" % (i, k) for i in range(60) for k in ("div", "sqrt", "log", "index", "raise")]
_GOALS = {
    "step": ["C02/noraise", "C02/L-range", "C02/K>=1", "C03/r*L=fs", "C03/next=f+r", "C03/r>0", "C03/b=f*L/fs", "C03/f<nyquist", "C03/b>=bmin-allowance",
             "C03/f0=bmin*fs/N", "C03/stored", "C03/lpsd=ltf(bmin=1,Lmin=1)"] + _VC,
    "twostep": ["C04/L-nonincreasing", "C04/K-nondecreasing"],
    "mono": ["C04/L-nonincreasing", "C04/K-nondecreasing"],
    "regime": ["C04/|L-L*|<=1/2", "C04/r/f=logfact up to rounding", "C04/K>=Kdes-level"],
    "seg": ["C02/unwinding:for-range", "C02/K=navg=len(D)", "C02/K>=1", "C02/K=1=>L=N", "C02/L-range", "C02/starts-in-range", "C02/first-start=0", "C02/starts-increasing",
            "C02/last-start=N-L", "C04/K<=N-L+1", "C04/K=nearest(capped)", "C04/even-spread", "C02/plan-K-is-step-K"] + _VC,
    "seg-generic": ["C02/K=navg=len(D)", "C02/K=1=>L=N", "C02/start-loop-base", "C02/start-loop-invariant", "C02/starts-in-range", "C02/first-start=0",
                    "C02/last-start=N-L", "C02/starts-increasing", "C04/even-spread", "C02/appended=istart", "C02/structure-changed"] + _VC,
}
ALIAS = {"C04/lemma:K>=Kdes-level (round-half-up form)": None, "C04/lemma:|L-L*|<=1/2": None, "C04/lemma:f*logfact*L*=fs": None, "C04/lemma:r*L=fs": None, "C04/lemma:r*(L*+-1/2) vs fs": None, "C04/K<=N-L+1": "C04/K=nearest(capped)", "C02/plan-K-is-step-K": "C02/K=navg=len(D)", "C02/start-loop-invariant": "C02/starts-in-range",
         "C02/start-loop-base": "C02/first-start=0", "C02/appended=istart": "C02/starts-in-range", "C02/unwinding:for-range": "C02/starts-in-range",
         "C03/stored": "C03/b=f*L/fs", "C04/|L-L*|<=1/2": None, "C04/r/f=logfact up to rounding": None, "C04/K>=Kdes-level": None}


# ============================================================================ vectorized_ltf_plan
PRIOR = dict(N=16, fs=1.0, olap=0.5, bmin=1.0, Lmin=2, Jdes=3, Kdes=2)


def vec_step(W, cfg, fork_ifs=False, prior=False):
    """phase 1 on a generic adjacent pair (g0,g1=rho*g0) of the lookup grid, one walker iteration from an arbitrary state, phase 3"""
    Sm = S()
    fd = astx.get_function_ast(Sm.vectorized_ltf_plan)
    pre, wh, post = split_body(fd)
    g0 = W.real("g0"); rho = W.real("rho")
    W.assume(g0 > 0); W.assume(rho > 1)
    grid = oarr([g0, g0 * rho])
    st = {}

    def logspace(a, b, n, **k):
        if not (is_sym_(a) or is_sym_(b)):
            return rnp.logspace(a, b, n, **k)
        st["n"] = n
        return grid.copy().view(SymNd)

    def searchsorted(arr, v, side="left"):
        if not (is_sym_(v) or (isinstance(arr, rnp.ndarray) and arr.dtype == object)):
            return rnp.searchsorted(arr, v, side=side)
        # contract (side='left'): arr[idx-1] < v <= arr[idx]; the generic pair is (idx-1, idx) = (0, 1)
        W.assume(arr[0] < v); W.assume(v <= arr[1])
        st["searched"] = (arr, v, side)
        return 1
    I = astx.Interp(glob_for(Sm, {"np_over": dict(logspace=logspace, searchsorted=searchsorted)}))
    W.run.fork_masks = False     # phase 1 masks stay symbolic (a[mask] = b[mask]/c merges element-wise)
    if prior:
        # an earlier plan in the same process (another record length): whatever it leaves at module level must not leak
        astx._Closure(I, fd, {})(**PRIOR)
        I.trace.clear(); I.unwind.clear()
    env = I.block(pre, {"args": dict(cfg)})
    I.fork_ifs = fork_ifs        # the walker's own `if`s fork (simpler per-path queries); phase 1 is branch-free array code
    add_pow_facts(W, cfg)
    # the grid lies inside [fmin, fmax]; only the looked-up point g1 matters
    W.assume(grid[1] >= env["fmin"]); W.assume(grid[1] <= env["fmax"])
    cf = W.real("fi")
    W.assume(cf >= env["fmin"])
    env["current_f"] = cf
    W.assume(I.ev(wh.test, env))
    env1 = I.block(wh.body, env)
    add_pow_facts(W, cfg)
    return I, env, env1, post, rho, st


def ob_vec_tail(W):
    """vectorized_ltf_plan: phase 1 on a generic adjacent grid pair with every mask decided element by element (fork mode), then ONE
    execution of the walker's loop body from an arbitrary state within three minimal resolutions of the end of the band, every `if` and
    every integer decided per path: however many bins it emits (one, or a whole tail followed by `break`), each satisfies the per-bin
    clauses of C02/C03 that do not depend on the starts"""
    cfg = config(W)
    if not W.sym:
        return concrete_goals(W, "vec", cfg, _GOALS["vec-tail"])
    Sm = S()
    fd = astx.get_function_ast(Sm.vectorized_ltf_plan)
    pre, wh, post = split_body(fd)
    g0 = W.real("g0"); rho = W.real("rho")
    W.assume(g0 > 0); W.assume(rho > 1)
    grid = oarr([g0, g0 * rho])

    def logspace(a, b, n, **k):
        if not (is_sym_(a) or is_sym_(b)):
            return rnp.logspace(a, b, n, **k)
        return grid.copy().view(SymNd)

    def searchsorted(arr, v, side="left"):
        if not (is_sym_(v) or (isinstance(arr, rnp.ndarray) and arr.dtype == object)):
            return rnp.searchsorted(arr, v, side=side)
        W.assume(arr[0] < v); W.assume(v <= arr[1])
        return 1
    I = astx.Interp(glob_for(Sm, {"np_over": dict(logspace=logspace, searchsorted=searchsorted)}))
    W.run.fork_masks = True          # a[mask] with a symbolic mask: its elements are decided (phase 1 has two grid points)
    W.run.concretize_ints = True
    env = I.block(pre, {"args": dict(cfg)})
    I.fork_ifs = True
    add_pow_facts(W, cfg)
    N, fs, Lmin = cfg["N"], cfg["fs"], cfg["Lmin"]
    W.assume(grid[1] >= env["fmin"]); W.assume(grid[1] <= env["fmax"])
    lv = [n.id for n in ast.walk(wh.test) if isinstance(n, ast.Name) and n.id in env and isinstance(env[n.id], SR)]
    if not lv:
        raise Unsupported("cannot identify the loop variable of the walker")
    loopvar = lv[0]
    cf = W.real("fi")
    W.assume(cf >= env[loopvar])
    env[loopvar] = cf
    W.assume(I.ev(wh.test, env))
    W.assume((fs / 2 - cf) * N <= fs * 3)
    try:
        env1 = I.block(wh.body, env)
        broke = False
    except astx._Break as b:
        env1, broke = b.env, True
    add_pow_facts(W, cfg)
    I.fork_ifs = False
    W.run.fork_masks = False
    out = run_post(W, I, dict(env1), post, 4)
    f, r, b, L, K = out["f"], out["r"], out["b"], out["L"], out["K"]
    n = len(f)
    if n == 0:
        W.goal("C02/tail:an iteration that emits nothing ends the loop", broke)
        return
    W.goal("C03/tail:first emitted frequency is the state", W.eq(f[0], cf))
    for j in range(n):
        Lj, Kj = SR(tz(L[j])), SR(tz(K[j]))
        W.goal("C03/tail:f<nyquist", f[j] * 2 < fs, bin=j, emitted=n)
        W.goal("C03/tail:r*L=fs", W.eq(r[j] * Lj, fs), bin=j)
        W.goal("C03/tail:b=f*L/fs", W.eq(b[j], f[j] * Lj / fs), bin=j)
        W.goal("C02/tail:L-range", W.And(Lj >= 1, Lj >= Lmin, Lj <= N), bin=j)
        W.goal("C02/tail:K>=1", Kj >= 1, bin=j)
        W.goal("C02/tail:K=1=>L=N", W.Implies(W.eq(Kj, 1), W.eq(Lj, N)), bin=j)
        if j + 1 < n:
            W.goal("C03/tail:next=f+r", W.eq(f[j + 1], f[j] + r[j]), bin=j)


def ob_mono_chain_vec(W, seg):
    """vectorized_ltf_plan: the lookup maps are monotone along the grid (L non-increasing, K non-decreasing on a generic adjacent pair
    g0 < g1 of the grid; the walker reads the maps at non-decreasing indices), proved as a chain cut at the two np.round statements of
    phase 1 -- the same three links as for the iterative schedulers, the 'two copies' being the two grid points"""
    cfg = config(W)
    if not W.sym:
        return concrete_goals(W, "vec", cfg, _GOALS["mono"])
    Sm = S()
    fd = astx.get_function_ast(Sm.vectorized_ltf_plan)
    pre, wh, post = split_body(fd)
    g0 = W.real("g0"); rho = W.real("rho")
    W.assume(g0 > 0); W.assume(rho > 1)
    grid = oarr([g0, g0 * rho])

    def logspace(a, b, n, **k):
        if not (is_sym_(a) or is_sym_(b)):
            return rnp.logspace(a, b, n, **k)
        return grid.copy().view(SymNd)
    I = astx.Interp(glob_for(Sm, {"np_over": dict(logspace=logspace)}))
    W.run.fork_masks = False
    N = cfg["N"]

    def is_round(st):
        return isinstance(st, ast.Assign) and len(st.targets) == 1 and isinstance(st.targets[0], ast.Name) and any(
            isinstance(c, ast.Call) and ((isinstance(c.func, ast.Attribute) and c.func.attr in ("round", "rint", "around")) or (isinstance(c.func, ast.Name) and c.func.id in ("round",)))
            for c in ast.walk(st.value))
    cuts = [i for i, st in enumerate(pre) if is_round(st)]
    if len(cuts) < 2:
        raise Unsupported("phase 1 does not have the two rounding statements the chain is cut at")
    iL, iK = cuts[0], cuts[1]
    env = {"args": dict(cfg)}
    n_side = None
    for i, st in enumerate(pre[:iL]):
        env = I.block([st], env)
    add_pow_facts(W, cfg)

    def arrays_read(st, env):
        return sorted({n.id for n in ast.walk(st.value) if isinstance(n, ast.Name) and isinstance(env.get(n.id), rnp.ndarray) and env[n.id].dtype == object})
    vs = arrays_read(pre[iL], env)
    if len(vs) != 1:
        raise Unsupported("the first rounding reads %d arrays" % len(vs))
    v = vs[0]
    if seg == "A":
        W.assume(grid[1] >= env["fmin"]) if "fmin" in env else None
        W.aux_goal("C04/chain-A:resolution>0", W.And(env[v][0] > 0, env[v][1] > 0))
        W.aux_goal("C04/chain-A:resolution nondecreasing in f", env[v][1] >= env[v][0])
        return
    v1, v2 = W.real("v1"), W.real("v2")
    W.assume(v1 > 0); W.assume(v2 >= v1)
    env[v] = oarr([v1, v2]).view(SymNd)
    for st in pre[iL:iK]:
        env = I.block([st], env)
    ms = [x for x in arrays_read(pre[iK], env) if x != v]
    if len(ms) != 1:
        raise Unsupported("the second rounding reads %d arrays" % len(ms))
    m = ms[0]
    if seg == "B":
        W.aux_goal("C04/chain-B:1<=length<=N", W.And(env[m][0] >= 1, env[m][0] <= N, env[m][1] >= 1, env[m][1] <= N))
        W.aux_goal("C04/chain-B:length nonincreasing in resolution", env[m][1] <= env[m][0])
        from symx.proxy import int_view
        W.aux_goal("C04/chain-B:length integral", all(int_view(tz(env[m][i])) is not None for i in (0, 1)))       # integral by construction (rounding, clamps between integers)
        return
    if seg == "C":
        m1, m2 = W.int("m1", lo=1), W.int("m2", lo=1)
        W.assume(m1 <= N); W.assume(m2 <= m1)
        env[m] = oarr([SR(z3.ToReal(m1.t)), SR(z3.ToReal(m2.t))]).view(SymNd)
        for st in pre[iK:]:
            env = I.block([st], env)
        Lm, Km = env["L_map"], env["K_map"]
        W.goal("C04/L-nonincreasing", SR(tz(Lm[1])) <= SR(tz(Lm[0])))
        W.goal("C04/K-nondecreasing", SR(tz(Km[1])) >= SR(tz(Km[0])))
        return
    raise ValueError(seg)


def ob_vec(W, part, fork_ifs=False, prior=False):
    cfg = config(W)
    if not W.sym:
        if prior:
            try:
                S().vectorized_ltf_plan(**PRIOR)
            except BaseException:
                pass
        return concrete_goals(W, "vec", cfg, _GOALS["vec-" + part])
    I, env0, env1, post, rho, st = vec_step(W, cfg, fork_ifs, prior)
    N, fs, olap, bmin, Lmin = cfg["N"], cfg["fs"], cfg["olap"], cfg["bmin"], cfg["Lmin"]
    fi = env0["current_f"]
    if part == "step":
        r, L, K = env1["final_r"], env1["final_L"], env1["final_K"]
        out = run_post(W, I, env1, post, 4)
        b = out["b"][0]
        W.goal("C03/searchsorted-side-left", st.get("searched", (0, 0, ""))[2] == "left")
        step_goals(W, cfg, dict(L=SR(tz(out["L"][0])), K=SR(tz(out["K"][0])), r=out["r"][0], b=b, fnext=env1["current_f"], fi=fi, fmin=env0["fmin"], bmin=bmin, Lmin=Lmin,
                                rho_inv=1 / rho, stored=(out["f"][0], out["r"][0], out["f"][0] * SR(tz(out["L"][0])) / fs, L, K)))
        sh = getattr(I, "last_env", {}).get("shift")
        seg_goals(W, out, cfg, Lmin, ("C02", "C04"), shift=(sh[0] if sh is not None and hasattr(sh, "__len__") and len(sh) == 1 else None))
        # reported overlap = realised mean overlap (L - (N-L)/(K-1))/L for K>1, 0 otherwise
        O = out["O"][0]; Lo, Ko = SR(tz(out["L"][0])), SR(tz(out["K"][0]))
        W.goal("C04/O=nominal-overlap", W.And(W.Implies(Ko > 1, W.eq(O, (Lo - (N - Lo) / (Ko - 1)) / Lo)), W.Implies(Ko <= 1, W.eq(O, 0))))
        return
    if part == "twostep":
        # same generic pair serves a later state only if it is looked up again; monotonicity is a property of the maps:
        # L_map non-increasing and K_map non-decreasing along the grid (g0 -> g1)
        Lm, Km = env0["L_map"], env0["K_map"]
        W.goal("C04/L-nonincreasing", SR(tz(Lm[1])) <= SR(tz(Lm[0])))
        W.goal("C04/K-nondecreasing", SR(tz(Km[1])) >= SR(tz(Km[0])))
        return
    if part == "regime":
        r, L, K = env1["final_r"], SR(tz(env1["final_L"])), SR(tz(env1["final_K"]))
        g1 = env0["f_grid"][1]
        # the lookup evaluates the rule at the grid point g1 >= f: log spacing holds relative to g1
        regime_goals(W, cfg, env0["clog"], env0["ravg"], g1, L, K, r, bmin, Lmin, half_up=False)
        return
    raise ValueError(part)


_GOALS["vec-step"] = _GOALS["step"] + _GOALS["seg"] + ["C03/searchsorted-side-left", "C04/O=nominal-overlap", "C02/lemma:shift*(K-1)=N-L", "C02/lemma:shift>=0", "C02/lemma:m*shift<=N-L"]
_GOALS["vec-step"].append("C02/lemma:shift>=1")
_GOALS["vec-step"].append("C02/lemma:(K-1)*shift=N-L at the last index")
for _l in ("C02/lemma:shift*(K-1)=N-L", "C02/lemma:shift>=0", "C02/lemma:m*shift<=N-L", "C02/lemma:shift>=1", "C02/lemma:(K-1)*shift=N-L at the last index"):
    ALIAS[_l] = "C02/starts-in-range"
_GOALS["vec-twostep"] = _GOALS["twostep"]
_GOALS["vec-regime"] = _GOALS["regime"]
ALIAS["C04/O=nominal-overlap"] = "C04/O=realised-overlap"
ALIAS["C03/searchsorted-side-left"] = "C03/b>=bmin-allowance"


# ============================================================================ new_ltf_plan
def new_step(W, cfg):
    """one iteration of the unified loop from an arbitrary state (fi, j, stage flags, k_stage2, dftlen_crossover, alpha)
    constrained by the inductive invariant INV (stated below and itself proved: holds initially, preserved by a step)"""
    Sm = S()
    fd = astx.get_function_ast(Sm.new_ltf_plan)
    pre, wh, post = split_body(fd)
    I = astx.Interp(glob_for(Sm))
    env = I.block(pre, {"args": dict(cfg)})
    add_pow_facts(W, cfg)
    init = dict(env)
    fi = W.real("fi"); j = W.int("j", lo=0); k2 = W.int("k_stage2", lo=0)
    s2 = W.bool("stage2"); s3 = W.bool("stage3")
    cross = W.int("dftlen_crossover", lo=0); alpha = W.real("alpha")
    st = dict(fi=fi, j=j, k_stage2=k2, stage2=s2, stage3=s3, dftlen_crossover=cross, alpha=alpha)
    env.update(st)
    W.assume(fi >= env["fmin"])
    W.assume(inv(W, cfg, st))
    W.assume(I.ev(wh.test, env))
    env1 = I.block(wh.body, env)
    add_exp_log_facts(W)
    return I, init, env, env1, post, st


def inv(W, cfg, st):
    """state invariant of the unified loop: stage3 => stage2; alpha <= 0; crossover in [0, N]; before stage 2 nothing of stage 2 has run"""
    N = cfg["N"]
    return W.And(W.Implies(st["stage3"], st["stage2"]), st["alpha"] <= 0, st["dftlen_crossover"] >= 0, st["dftlen_crossover"] <= N,
                 W.Implies(W.Not(st["stage2"]), W.And(W.eq(st["k_stage2"], 0), W.eq(st["alpha"], 0))))


def add_exp_log_facts(W):
    run = W.run
    for (u, r) in run.uapps.get("exp", []):
        run.side += [r > 0, z3.Implies(u == 0, r == 1), z3.Implies(u <= 0, r <= 1), z3.Implies(u >= 0, r >= 1)]
    for (u, r) in run.uapps.get("log", []):
        run.side += [z3.Implies(u == 1, r == 0), z3.Implies(z3.And(u > 0, u <= 1), r <= 0), z3.Implies(u >= 1, r >= 0)]
        ctx_vc_log(run, u)


def ctx_vc_log(run, u):
    run.vcs.append(("log@argument>0", z3.BoolVal(True), u > 0))


def ob_new(W, part):
    cfg = config(W)
    if not W.sym:
        return concrete_goals(W, "new", cfg, _GOALS["new-" + part])
    I, init, env0, env1, post, st = new_step(W, cfg)
    N, fs, olap, bmin, Lmin = cfg["N"], cfg["fs"], cfg["olap"], cfg["bmin"], cfg["Lmin"]
    fi = env0["fi"]
    if part == "step":
        out = run_post(W, I, env1, post, 4)
        L, K = SR(tz(out["L"][0])), SR(tz(out["K"][0]))
        step_goals(W, cfg, dict(L=L, K=K, r=out["r"][0], b=out["b"][0], fnext=env1["fi"], fi=fi, fmin=init["fmin"], bmin=bmin, Lmin=Lmin,
                                stored=(out["f"][0], env1["fres"], env1["fbin"], env1["dftlen"], env1["nseg"])))
        sh = getattr(I, "last_env", {}).get("shift")
        seg_goals(W, out, cfg, Lmin, ("C02", "C04"), shift=(sh[0] if sh is not None and hasattr(sh, "__len__") and len(sh) == 1 else None))
        st1 = {k: env1[k] for k in st}
        W.goal("C02/invariant-preserved", inv(W, cfg, st1))
        st_init = {k: init[k] for k in st}
        W.goal("C02/invariant-initial", inv(W, cfg, st_init))
        return
    raise ValueError(part)


_GOALS["tail"] = ["C03/tail:emits-at-least-one-bin", "C03/tail:first emitted frequency is the state", "C03/tail:f<nyquist", "C03/tail:r*L=fs", "C03/tail:b=f*L/fs", "C02/tail:L-range",
                  "C03/tail:next=f+r", "C03/tail:early exit only at the end of the band"]
for _n, _a in (("C03/tail:emits-at-least-one-bin", "C02/K>=1"), ("C03/tail:first emitted frequency is the state", "C03/next=f+r"), ("C03/tail:f<nyquist", "C03/f<nyquist"), ("C03/tail:r*L=fs", "C03/r*L=fs"),
               ("C03/tail:b=f*L/fs", "C03/b=f*L/fs"), ("C02/tail:L-range", "C02/L-range"), ("C03/tail:next=f+r", "C03/next=f+r"), ("C03/tail:early exit only at the end of the band", "C03/f<nyquist")):
    ALIAS[_n] = _a
_GOALS["vec-tail"] = _GOALS["tail"] + ["C02/tail:K>=1", "C02/tail:K=1=>L=N", "C02/tail:an iteration that emits nothing ends the loop"]
ALIAS["C02/tail:K>=1"] = "C02/K>=1"; ALIAS["C02/tail:K=1=>L=N"] = "C02/K=1=>L=N"; ALIAS["C02/tail:an iteration that emits nothing ends the loop"] = "C02/K>=1"
for _n in ("C04/chain-A:resolution>0", "C04/chain-A:resolution nondecreasing in f", "C04/chain-A1:resolution>0", "C04/chain-A1:resolution nondecreasing in f",
           "C04/chain-A2:resolution>0", "C04/chain-A2:resolution nondecreasing in f", "C04/chain-B:1<=length<=N", "C04/chain-B:length nonincreasing in resolution", "C04/chain-B:length integral"):
    ALIAS[_n] = "C04/L-nonincreasing"      # a counterexample to a link is a finding only if a real plan of that configuration is non-monotone
    _GOALS["mono"].append(_n)
_GOALS["new-step"] = _GOALS["vec-step"] + ["C02/invariant-preserved", "C02/invariant-initial"]
ALIAS["C02/invariant-preserved"] = None
ALIAS["C02/invariant-initial"] = None


# ============================================================================ SpectrumAnalyzer.plan() and the Jdes search (DYN, fork mode)
def ob_search(W, lo, hi, prior=False):
    """find_Jdes_binary_search with an arbitrary scheduler nf(Jdes): returns J with nf(J)=target, or None
    (prior=True: after an earlier search with ANOTHER scheduler and the same settings in the same process)"""
    import speckit.utils as U
    target = W.int("target", lo=1)
    nfs = {J: W.int("nf_%d" % J, lo=1) for J in range(lo, hi + 1)}
    calls = []

    def sched(**kw):
        J = kw["Jdes"]
        calls.append(J)
        return {"nf": nfs[int(J)]}
    other = {J: W.int("other_nf_%d" % J, lo=1) for J in range(lo, hi + 1)} if prior else None

    def sched_other(**kw):
        return {"nf": other[int(kw["Jdes"])]}

    def sched_by_args(**kw):
        # ONE scheduler whose bin count depends on its clamp arguments too (bmin=1: nf_J, any other bmin: other_nf_J)
        J = int(kw["Jdes"])
        if kw.get("bmin", 1.0) == 1.0 and kw.get("Lmin", 1) == 1:
            calls.append(J)
            return {"nf": nfs[J]}
        return {"nf": other[J]}
    if prior == "other-args":
        first = lambda f: f(sched_by_args, target, N=16, fs=1.0, olap=0.5, Kdes=4, bmin=2.0, Lmin=3)
        second = lambda f: f(sched_by_args, target, N=16, fs=1.0, olap=0.5, Kdes=4, bmin=1.0, Lmin=1)
    else:
        first = lambda f: f(sched_other, target, N=16)
        second = lambda f: f(sched, target, N=16)
    if W.sym:
        from symx.shim import clone_module
        G = clone_module(U, dict(MIN_JDES=lo, MAX_JDES=hi))
        f = G["find_Jdes_binary_search"]
        if prior:
            first(f)
        ret = second(f)
    else:
        old = (U.MIN_JDES, U.MAX_JDES)
        U.MIN_JDES, U.MAX_JDES = lo, hi
        try:
            if prior:
                first(U.find_Jdes_binary_search)
            ret = second(U.find_Jdes_binary_search)
        finally:
            U.MIN_JDES, U.MAX_JDES = old
    W.goal("C04/search-returns-exact-or-None", True if ret is None else W.eq(nfs[int(ret)], target))
    W.goal("C04/search-result-in-range", ret is None or lo <= int(ret) <= hi)
    W.goal("C04/search-terminates", len(calls) <= (hi - lo + 1))
    if ret is None:
        # None only when no probed Jdes hits the target
        W.goal("C04/None-means-no-probe-hit", W.And(*[W.ne(nfs[J], target) for J in calls]) if calls else True)


def _mk_analyzer(W, A, sched_fn, cfgd, nx, fs, sym):
    cls = A["SpectrumAnalyzer"] if isinstance(A, dict) else A.SpectrumAnalyzer
    a = object.__new__(cls)
    a.fs = fs; a.nx = nx; a.verbose = False; a.iscsd = False
    a.config = cfgd
    a._plan_cache = None
    return a


def ob_plan_forced(W, lo, hi):
    """plan() with force_target_nf: RuntimeError, or a plan with exactly the target number of bins"""
    import speckit.analysis as A, speckit.utils as U
    target = W.int("target", lo=1, hi=3)
    nfs = {J: W.int("nf_%d" % J, lo=1, hi=3) for J in range(lo, hi + 1)}

    def sched(**kw):
        J = int(kw["Jdes"])
        n = nfs[J]
        # a valid plan with n bins (n in 1..3): built for each feasible n by forking on its value
        for cand in (1, 2, 3):
            if n == cand:
                nb = cand
                break
        import numpy as rnp
        return {"f": rnp.arange(1, nb + 1) * 0.1, "r": rnp.full(nb, 0.1), "b": rnp.arange(1, nb + 1) * 1.0, "L": rnp.full(nb, 10), "K": rnp.full(nb, 1),
                "navg": rnp.full(nb, 1), "D": [rnp.array([0])] * nb, "O": rnp.zeros(nb), "nf": n}
    cfgd = {"scheduler_func": sched, "scheduler_name": "stub", "final_olap": 0.5, "bmin": 1.0, "Lmin": 1, "Kdes": 10, "force_target_nf": True, "Jdes": target, "band": None, "num_patch_pts": None}
    if W.sym:
        from symx.shim import clone_module, NumpyShim
        srch = clone_module(U, dict(MIN_JDES=lo, MAX_JDES=hi))["find_Jdes_binary_search"]     # fresh module copy per run: no state across paths
        GA = clone_module(A, dict(np=NumpyShim(), find_Jdes_binary_search=srch))
        a = _mk_analyzer(W, GA, sched, cfgd, 10, 1.0, W.sym)
        planf = GA["SpectrumAnalyzer"].plan
    else:
        a = _mk_analyzer(W, A.__dict__, sched, cfgd, 10, 1.0, W.sym)
        old = (U.MIN_JDES, U.MAX_JDES)
        U.MIN_JDES, U.MAX_JDES = lo, hi
        planf = A.SpectrumAnalyzer.plan
    try:
        try:
            p = planf(a)
            W.goal("C04/forced-nf-exact", W.eq(p["nf"], target))
            W.goal("C04/forced-nf-arrays", len(p["f"]) == p["nf"] if not W.sym else W.eq(p["nf"], len(p["f"])))
        except RuntimeError:
            W.goal("C04/forced-nf-exact", True)
    finally:
        if not W.sym:
            U.MIN_JDES, U.MAX_JDES = old


def ob_plan(W, Ks, sched_is_lpsd=False):
    """SpectrumAnalyzer.plan() accepts every plan that satisfies the per-bin post-conditions established for the schedulers"""
    import speckit.analysis as A, speckit.schedulers as Sm
    import numpy as rnp
    nf = len(Ks)
    N = W.int("N", lo=8, hi=64)
    Lmin = W.int("Lmin", lo=1)
    fs = W.real("fs")
    if W.sym:
        W.assume(fs > 0); W.assume(Lmin <= N)
    bins = []
    for j, Kn in enumerate(Ks):
        L = W.int("L%d" % j, lo=1)
        d = [W.int("d%d_%d" % (j, i)) for i in range(Kn)]
        f = W.real("f%d" % j); r = W.real("r%d" % j)
        if W.sym:
            W.assume(L <= N)
            if not sched_is_lpsd:
                W.assume(L >= Lmin)
            W.assume(d[0] == 0)
            for i in range(Kn - 1):
                W.assume(d[i + 1] > d[i])
            W.assume(d[-1] + L <= N)
            if Kn > 1:
                W.assume(d[-1] == N - L)
            else:
                W.assume(L == N)
            W.assume(r * L == fs); W.assume(f > 0)
        bins.append(dict(L=L, d=d, f=f, r=r, K=Kn))
    if not W.sym:
        ok = all(b["L"] >= 1 and b["L"] <= N and (sched_is_lpsd or b["L"] >= Lmin) and b["d"][0] == 0 and all(b["d"][i + 1] > b["d"][i] for i in range(b["K"] - 1)) and b["d"][-1] + b["L"] <= N for b in bins)
        if not ok or not (1 <= Lmin <= N and fs > 0):
            return

    def plan_dict():
        mk = (lambda xs: oarr(xs)) if W.sym else (lambda xs: rnp.array(xs))
        return {"f": mk([b["f"] for b in bins]), "r": mk([b["r"] for b in bins]), "b": mk([b["f"] * b["L"] / fs for b in bins]),
                "L": mk([b["L"] for b in bins]) if W.sym else rnp.array([b["L"] for b in bins], dtype=int),
                "K": rnp.array([b["K"] for b in bins]), "navg": rnp.array([b["K"] for b in bins]),
                "D": [(oarr(b["d"]) if W.sym else rnp.array(b["d"], dtype=int)) for b in bins], "O": rnp.zeros(nf), "m": None, "nf": nf}
    stub = (lambda **kw: plan_dict())
    sched_fn = Sm.lpsd_plan if sched_is_lpsd else stub
    cfgd = {"scheduler_func": sched_fn, "scheduler_name": "stub", "final_olap": 0.5, "bmin": 1.0, "Lmin": Lmin, "Kdes": 10, "force_target_nf": False, "Jdes": 5, "band": None, "num_patch_pts": None}
    if W.sym:
        from symx.shim import clone_module, NumpyShim
        over = dict(np=NumpyShim())
        if sched_is_lpsd:
            over["lpsd_plan"] = Sm.lpsd_plan
        GA = clone_module(A, over)
        a = _mk_analyzer(W, GA, sched_fn, cfgd, N, fs, W.sym)
        if sched_is_lpsd:
            a.config["scheduler_func"] = _LpsdLike(stub, Sm.lpsd_plan)
        planf = GA["SpectrumAnalyzer"].plan
    else:
        a = _mk_analyzer(W, A, sched_fn, cfgd, N, fs, W.sym)
        planf = A.SpectrumAnalyzer.plan
        if sched_is_lpsd:
            return
    p = planf(a)
    W.goal("C02/analyzer-accepts", True)
    W.goal("C02/plan-nf", p["nf"] == nf)
    W.goal("C02/plan-cached", a._plan_cache is p and planf(a) is p)
    for j in range(nf):
        W.goal("C02/plan-D%d-kept" % j, len(p["D"][j]) == Ks[j] and all(bool(W.eq(p["D"][j][i], bins[j]["d"][i])) if not W.sym else True for i in range(Ks[j])))
        if W.sym:
            W.goal("C02/plan-D%d-values" % j, W.And(*[W.eq(p["D"][j][i], bins[j]["d"][i]) for i in range(Ks[j])]))
            W.goal("C02/plan-L%d" % j, W.eq(p["L"][j], bins[j]["L"]))


def ob_plan_by_name(W, name="lpsd", N=64):
    """the scheduler is given by NAME: the constructor's own resolution code (_process_scheduler_config) followed by plan() on a
    concrete small configuration with a SYMBOLIC Lmin -- 'building the plan through the analyzer never fails': the LPSD scheduler
    is exempt from the configured Lmin however the name is resolved (tables, wrappers, memoised functions)"""
    import speckit.analysis as A
    import numpy as rnp
    Lmin = W.int("Lmin", lo=1, hi=N)
    if W.sym:
        from symx.shim import clone_module, NumpyShim
        GA = clone_module(A, dict(np=NumpyShim()))
        cfgd = {"scheduler": name, "final_olap": 0.5, "bmin": 1.0, "Lmin": Lmin, "Kdes": 4, "force_target_nf": False, "Jdes": 6, "band": None, "num_patch_pts": None}
        a = _mk_analyzer(W, GA, None, cfgd, N, 1.0, True)
        GA["SpectrumAnalyzer"]._process_scheduler_config(a)
        p = GA["SpectrumAnalyzer"].plan(a)
    else:
        if not 1 <= Lmin <= N:
            return
        a = A.SpectrumAnalyzer((rnp.arange(N) * 0.37) % 1.0, 1.0, scheduler=name, olap=0.5, bmin=1.0, Lmin=int(Lmin), Kdes=4, Jdes=6)
        p = a.plan()
    W.goal("C02/by-name/noraise", True)
    W.goal("C02/by-name/plan-has-bins", int(p["nf"]) >= 1 and len(p["D"]) == int(p["nf"]))


class _LpsdLike:
    """a stub scheduler that compares equal to lpsd_plan (plan() waives the Lmin check for the LPSD scheduler)"""
    def __init__(self, f, real):
        self.f, self.real = f, real
        self.__name__ = "lpsd_plan"

    def __call__(self, **kw):
        return self.f(**kw)

    def __eq__(self, o):
        return o is self.real

    def __ne__(self, o):
        return o is not self.real

    __hash__ = None
