"""C05 -- a computed spectrum is the reference estimator applied to its own plan."""
import math, itertools
from fractions import Fraction as F
import numpy as rnp
import z3

from symx import ctx
from symx.proxy import SR, SC, plain, SymbolicBranch
from symx.shim import NumpyShim, clone, oarr, SymNd
from . import kernels as K, result as R

PROPERTY = "C05"
META = {
    "bounds": {"quick": "compute(): plans of nf<=3 bins with every equality pattern of segment lengths ((a,a,a),(a,a,b),(a,b,a),(b,a,a),(a,b,c)), symbolic f per bin, symbolic data and window samples, orders -1,0,1,2, auto/cross, backends numba/numpy/cuda/auto (one bin with K>1000 for the auto->cuda switch), Kaiser and non-Kaiser windows; compute_single_bin(): symbolic frequency, (N,L|fres,olap) on a grid of 14 concrete shapes incl. non-integer fs/fres; band filter: symbolic band edges over a 3-bin symbolic plan, every feasible mask by forking",
               "thorough": "as quick plus all (order, mode, backend, window) combinations for every L pattern"},
    "outside": ["the kernels themselves (C01) -- here they are recorders returning fresh symbols, so what is decided is the wiring: which kernel, which arguments, where the results go", "single-bin segmentation for symbolic N/L/olap (decided on the concrete shape grid only)"],
    "stubs": ["18 kernels -> recorders (family, mode, backend, arguments) returning fresh 5-tuples", "window function -> tagged symbolic array win(M, beta)", "_build_Q -> tag Q(L, order)", "scheduler -> symbolic plan"],
    "assumptions": ["plan invariant b = f*L/fs (C03) so that omega from f or from b/L is the same"],
}


def encoded_functions():
    import speckit.analysis as A
    return [A.SpectrumAnalyzer._lpsd_core, A.SpectrumAnalyzer.compute, A.SpectrumAnalyzer.compute_single_bin, A.SpectrumAnalyzer.plan, A.SpectrumResult.__init__]


class Rec:
    def __init__(self):
        self.calls = []
        self.n = 0
        self.win_calls = []
        self.q_calls = []
        self.wins = {}


class QTag:
    def __init__(self, L, order):
        self.L, self.order = L, order

    def astype(self, *a, **k):
        return self


def _recorders(rec, run_real=False):
    """run_real: the NumPy fallbacks (window-only and mean-removal families) are ALSO executed for real (C01's clone of the kernel on
    the arguments it is handed) before the fresh symbols are returned -- whatever the kernel does to the arrays it receives (the
    analyzer's own record, the cached window) then happens to them, as in a real analysis"""
    out = {}
    for backend in K.BACKENDS:
        for fam in K.FAMILIES:
            for mode in ("auto", "csd"):
                name = K.fname(backend, fam, mode)

                def f(*args, _b=backend, _f=fam, _m=mode):
                    i = rec.n
                    rec.n += 1
                    if run_real and _b == "numpy" and _f != "poly":
                        try:
                            from symx.proxy import Omega
                            # (the analysis angle is irrelevant for what the kernel does to its arrays: a fixed Pythagorean point)
                            K.sym_modules()[0][K.fname(_b, _f, _m)](*(list(args[:-1]) + [Omega(SR(z3.RealVal(3) / 5), SR(z3.RealVal(4) / 5))]))
                        except (ctx.NeedFork, SymbolicBranch, KeyboardInterrupt):
                            raise
                        except Exception as e:
                            rec.real_errors = getattr(rec, "real_errors", []) + [repr(e)[:200]]
                            import os
                            if os.environ.get("SYMX_DEBUG"):
                                import traceback; traceback.print_exc()
                    ret = tuple(SR(z3.Real("ret%d_%s" % (i, nm))) for nm in K.STAT_NAMES)
                    rec.calls.append(dict(backend=_b, fam=_f, mode=_m, args=args, ret=ret))
                    return ret
                out[name] = f
    return out


def _sym_setup(rec, win_kind, run_real=False):
    """the whole analysis module re-created over one namespace: kernels -> recorders, numpy -> shim, window/Q builders -> tags"""
    import speckit.analysis as A
    from symx.shim import clone_module

    class KaiserTag:
        pass
    kz = KaiserTag()

    def win_stub(M, *beta):
        key = (int(M), tuple(beta))
        rec.win_calls.append(key)
        if key not in rec.wins:
            rec.wins[key] = oarr([SR(z3.Real("win%d_%d_%d" % (len(rec.wins), M, i))) for i in range(int(M))])
        return rec.wins[key].copy().view(SymNd)
    NP = NumpyShim(interp=R.interp_stub)
    over = dict(np=NP, _build_Q=lambda L, order: (rec.q_calls.append((int(L), int(order))) or QTag(int(L), int(order))))
    over.update(_recorders(rec, run_real))
    if win_kind == "kaiser":
        over["np_kaiser"] = win_stub
        over["sp_kaiser"] = kz
    G = clone_module(A, over, importer=lambda name, fromlist: (NP if name == "numpy" else None))
    return G, win_stub


def _mk(W, G, N, order, iscsd, backend, win_kind, win_stub, alpha, fs, x1, x2, plan=None, band=None, olap=0.5):
    """an analyzer on the symbolic record: built by the REAL (cloned) constructor, so that whatever __init__ derives from the data or
    stores on the instance is there; the window function / shape parameter / scheduler entries of its configuration are then pointed at
    the harness's stand-ins.  (If the constructor cannot be run on symbolic input the instance is assembled field by field.)"""
    cls = G["SpectrumAnalyzer"]
    a = None
    try:
        data = x1 if not iscsd else rnp.array([list(x1), list(x2)], dtype=object).view(SymNd)
        a = cls(data, fs, olap=olap, order=order, backend=backend, win=("kaiser" if win_kind == "kaiser" else win_stub), psll=120,
                scheduler=(lambda **kw: plan), band=band, Lmin=1, bmin=1.0, Kdes=10, Jdes=5)
        ok = a.nx == N and bool(a.iscsd) == bool(iscsd) and _same(rnp.asarray(a.x1), rnp.asarray(x1)) and (not iscsd or _same(rnp.asarray(a.x2), rnp.asarray(x2)))
        if not ok:
            W.note("constructor stored a different record than it was given")
            W.goal("constructor/record stored as given", False)
    except (ctx.NeedFork, SymbolicBranch, KeyboardInterrupt):
        raise          # (a data-dependent branch in the constructor: the obligation is re-run path by path)
    except Exception as e:
        W.note("real constructor not usable on symbolic input (%s: %s): instance assembled field by field" % (type(e).__name__, str(e)[:120]))
        import os
        if os.environ.get("SYMX_DEBUG"):
            import traceback; traceback.print_exc()
        a = None
    if a is not None:
        keep = dict(a.config)
        a.fs = fs
        a.config.update({"order": order, "backend": backend, "win_func": win_stub, "alpha": alpha if win_kind == "kaiser" else None, "final_olap": olap,
                         "band": band, "scheduler_func": (lambda **kw: plan), "scheduler_name": "stub"})
        a._plan_cache = None
        return a
    a = object.__new__(cls)
    a.fs = fs; a.nx = N; a.verbose = False; a.iscsd = iscsd
    a.x1, a.x2 = x1, x2
    a.data = x1
    a.config = {"order": order, "backend": backend, "win_func": win_stub, "alpha": alpha if win_kind == "kaiser" else None, "final_olap": olap,
                "band": band, "Lmin": 1, "bmin": 1.0, "Kdes": 10, "Jdes": 5, "force_target_nf": False, "num_patch_pts": None, "N": N,
                "scheduler_func": (lambda **kw: plan), "scheduler_name": "stub", "psll": 120, "win": "kaiser" if win_kind == "kaiser" else "other", "win_name": win_kind}
    a._plan_cache = None
    return a


def _expected_backend(Kn, hint):
    import speckit.core as core
    return core._select_backend(Kn, hint)


def _check_call(W, tag, call, a, order, iscsd, backend, L, D, f_j, fs, win_kind, alpha, rec, x1, x2):
    fam = K.family_of(order)
    W.goal(tag + "/kernel-family", call["fam"] == fam, got=call["fam"])
    W.goal(tag + "/kernel-mode", call["mode"] == ("csd" if iscsd else "auto"))
    W.goal(tag + "/backend", call["backend"] == _expected_backend(len(D), backend), got=call["backend"])
    if call["mode"] != ("csd" if iscsd else "auto") or call["fam"] != fam:
        return None           # another kind of kernel was called (reported above): its argument list has another layout
    args = list(call["args"])
    W.goal(tag + "/channel-1", _same(args.pop(0), x1))
    if iscsd:
        W.goal(tag + "/channel-2", _same(args.pop(0), x2))
    starts, Larg, w, omega = args[:4]
    W.goal(tag + "/starts", rnp.array_equal(rnp.asarray(starts), rnp.asarray(D)))
    W.goal(tag + "/L", int(Larg) == int(L))
    key = (int(L) + 1, (alpha * rnp.pi,)) if win_kind == "kaiser" else (int(L), ())
    ref_w = rec.wins.get(key)
    okw = ref_w is not None and len(w) == int(L) and all(w[i] is ref_w[i] or bool(z3.is_true(z3.simplify(w[i].t == ref_w[i].t))) for i in range(int(L)))
    W.goal(tag + "/window", okw, key=str(key))
    W.goal(tag + "/omega=2*pi*f/fs", W.eq(omega, f_j * (2.0 * rnp.pi) / fs))
    if fam == "poly":
        Q = args[4] if len(args) > 4 else None
        W.goal(tag + "/Q(L,order)", isinstance(Q, QTag) and Q.L == int(L) and Q.order == order)
    else:
        W.goal(tag + "/no-Q", len(args) == 4)
    return ref_w


def _same(a, b):
    if a is b:
        return True
    if isinstance(a, rnp.ndarray) and isinstance(b, rnp.ndarray) and a.shape == b.shape:
        return all(x is y for x, y in zip(a.reshape(-1), b.reshape(-1)))
    return False


def ob_compute(W, Ls, Ks, order, iscsd, backend, win_kind, prior=False):
    """compute() on a symbolic plan: per-bin kernel dispatch, arguments, placement of the results, window sums"""
    nf = len(Ls)
    N = max(Ls) + 6
    fs = W.real("fs")
    fvals = [W.real("f%d" % j) for j in range(nf)]
    if not W.sym:
        return _concrete_compute(W, Ls, Ks, order, iscsd, backend, win_kind, N, fs, fvals, prior)
    W.assume(fs > 0)
    rec = Rec()
    G, win_stub = _sym_setup(rec, win_kind)
    x1 = W.reals("x", N); x2 = W.reals("y", N) if iscsd else None
    D = [rnp.round(rnp.arange(k) * ((N - L) / max(k - 1, 1))).astype(rnp.int64) if k > 1 else rnp.array([0], dtype=rnp.int64) for L, k in zip(Ls, Ks)]

    def mkplan():
        return {"f": oarr(fvals), "r": oarr([fs / L for L in Ls]), "b": oarr([fvals[j] * Ls[j] / fs for j in range(nf)]), "L": rnp.array(Ls, dtype=rnp.int64),
                "K": rnp.array(Ks, dtype=rnp.int64), "navg": rnp.array(Ks, dtype=rnp.int64), "D": [d.copy() for d in D], "O": rnp.zeros(nf), "nf": nf}
    if prior:
        # an earlier analysis in the same process (same class objects, same window function, another shape parameter / other data):
        # whatever it leaves behind must not leak into the analysis under test
        if win_kind == "kaiser":
            prior_win = win_stub
        else:
            # a DIFFERENT user-supplied window callable (both are 'custom' windows as far as names go)
            def prior_win(M, *beta):
                return oarr([SR(z3.Real("priorwin_%d_%d" % (M, i))) for i in range(int(M))])
            # ... of the SAME name (two lambdas, two partials, two functions called `window`): a name does not identify a callable
            for at in ("__name__", "__qualname__"):
                try:
                    setattr(prior_win, at, getattr(win_stub, at))
                except Exception:
                    pass
        a0 = _mk(W, G, N, order, iscsd, backend, win_kind, prior_win, 1.25, fs, W.reals("px", N), W.reals("py", N) if iscsd else None)
        a0._plan_cache = mkplan()
        a0.compute()
        rec.calls.clear()
    alpha = 2.5
    a = _mk(W, G, N, order, iscsd, backend, win_kind, win_stub, alpha, fs, x1, x2)
    a._plan_cache = mkplan()
    res = a.compute()
    W.goal("one-kernel-call-per-bin", len(rec.calls) == nf, n=len(rec.calls))
    if len(rec.calls) != nf:
        return
    d = res._data
    for j in range(nf):
        c = rec.calls[j]
        tag = "bin%d" % j
        ref_w = _check_call(W, tag, c, a, order, iscsd, backend, Ls[j], D[j], fvals[j], fs, win_kind, alpha, rec, x1, x2)
        ret = c["ret"]
        W.goal(tag + "/XX", W.eq(d["XX"][j], ret[0])); W.goal(tag + "/YY", W.eq(d["YY"][j], ret[1]))
        W.goal(tag + "/XY", W.eq(d["XY"][j], SC(ret[2], ret[3]))); W.goal(tag + "/M2", W.eq(d["M2"][j], ret[4]))
        if ref_w is not None:
            S1 = sum(ref_w[i] for i in range(Ls[j])); S2 = sum(ref_w[i] * ref_w[i] for i in range(Ls[j]))
            W.goal(tag + "/S12=(sum w)^2", W.eq(d["S12"][j], S1 * S1)); W.goal(tag + "/S2=sum w^2", W.eq(d["S2"][j], S2))
        W.goal(tag + "/f", W.eq(d["f"][j], fvals[j])); W.goal(tag + "/L,K,navg", int(d["L"][j]) == Ls[j] and int(d["K"][j]) == Ks[j] and int(d["navg"][j]) == Ks[j])
        W.goal(tag + "/D", rnp.array_equal(rnp.asarray(d["D"][j]), D[j]))
    W.goal("result-type", res.iscsd == iscsd and (res.fs is fs or bool(z3.is_true(z3.simplify((res.fs == fs).t)))))


def _ref_stats(x1, x2, starts, L, w, omega, order):
    """reference estimator on concrete data (direct DFT, exact projector)"""
    class _W:
        sym = False
        def cis(self, om, k): return complex(math.cos(k * om), math.sin(k * om))
        def num(self, x): return float(x)
    y = x2 if x2 is not None else x1
    return K.reference(_W(), x1, y, list(starts), L, w, omega, order, "csd" if x2 is not None else "auto")


def _concrete_compute(W, Ls, Ks, order, iscsd, backend, win_kind, N, fs, fvals, prior=False):
    """replay: the real compute() on pseudo-random data with a stub scheduler returning the plan, against the reference estimator"""
    import speckit.analysis as A
    rng = rnp.random.default_rng(7)
    Nr = max(max(Ls) + 6, 1100 if max(Ks) > 1000 else 0)
    data = rng.standard_normal((2, Nr)) if iscsd else rng.standard_normal(Nr)
    if Nr == N:
        # the record of the solver's model (data-dependent dispatch can only be reproduced on the data that triggers it)
        xs = rnp.array([float(v) for v in W.reals("x", N)])
        data = rnp.vstack([xs, rnp.array([float(v) for v in W.reals("y", N)])]) if iscsd else xs
    fsr = float(fs) if fs > 0 else 1.0
    f = [abs(float(v)) % (fsr / 2) for v in fvals]
    D = [rnp.round(rnp.arange(k) * ((Nr - L) / max(k - 1, 1))).astype(rnp.int64) if k > 1 else rnp.array([0], dtype=rnp.int64) for L, k in zip(Ls, Ks)]

    def sched(**kw):
        return {"f": rnp.array(f), "r": rnp.array([fsr / L for L in Ls]), "b": rnp.array([f[j] * Ls[j] / fsr for j in range(len(Ls))]), "L": rnp.array(Ls), "K": rnp.array(Ks),
                "navg": rnp.array(Ks), "D": [d.copy() for d in D], "O": rnp.zeros(len(Ls)), "nf": len(Ls)}
    ok = True
    try:
        if prior:
            A.SpectrumAnalyzer(rng.standard_normal((2, Nr)) if iscsd else rng.standard_normal(Nr), fsr, order=order, backend=backend,
                               win=("kaiser" if win_kind == "kaiser" else (lambda M: rnp.blackman(M))), psll=60, scheduler=sched, olap=0.5).compute()
        a = A.SpectrumAnalyzer(data, fsr, order=order, backend=backend, win=("kaiser" if win_kind == "kaiser" else ((lambda M: rnp.hanning(M)) if prior else "hann")), psll=120, scheduler=sched, olap=0.5)
        res = a.compute()
        alpha = a.config.get("alpha")
        for j, L in enumerate(Ls):
            w = rnp.kaiser(L + 1, alpha * rnp.pi)[:-1] if win_kind == "kaiser" else rnp.hanning(L)
            x1 = data[0] if iscsd else data
            x2 = data[1] if iscsd else None
            ref = _ref_stats(x1, x2, D[j], L, w, 2 * math.pi * f[j] / fsr, order)
            got = [res.XX[j], res.YY[j], res.XY[j].real, res.XY[j].imag, res.M2[j]]
            sc = 1e-9 * (abs(ref[0]) + abs(ref[1])) + 1e-300          # relative to the power in the bin (the record may be tiny)
            ok = ok and all(abs(g - r) <= (sc if i < 4 else sc * sc / 1e-9 + 1e-300) + 1e-7 * abs(r) for i, (g, r) in enumerate(zip(got, ref)))
            ok = ok and abs(res.S12[j] - w.sum() ** 2) <= 1e-9 * w.sum() ** 2 and abs(res.S2[j] - (w * w).sum()) <= 1e-9 * (w * w).sum()
    except Exception as e:
        ok = False
        W.note("real compute() raised %r" % (e,))
    W.resolver = lambda name: ok


SHAPES = [(12, 4, None, 0.5), (12, 12, None, 0.5), (13, 5, None, 0.0), (40, 7, None, 0.75), (9, 1, None, 0.3), (20, None, 0.3, 0.5), (20, None, 0.07, 0.6), (33, None, 0.21, 0.25),
          (16, None, 1.0, 0.5), (16, None, 0.0625, 0.5), (50, 3, None, 0.9), (50, None, 0.33, 0.9), (11, 10, None, 0.5), (64, None, 0.023, 0.7)]


def ob_single(W, N, L, fres, olap, order, iscsd, backend, win_kind):
    """compute_single_bin(): segmentation it reports is valid, the kernel gets exactly that segmentation, the frequency and window"""
    fs = 1.0
    freq = W.real("freq", lo=0)
    if not W.sym:
        return _concrete_single(W, N, L, fres, olap, order, iscsd, backend, win_kind, float(freq))
    W.assume(freq <= F(1, 2))
    rec = Rec()
    G, win_stub = _sym_setup(rec, win_kind)
    x1 = W.reals("x", N); x2 = W.reals("y", N) if iscsd else None
    alpha = 2.5
    a = _mk(W, G, N, order, iscsd, backend, win_kind, win_stub, alpha, fs, x1, x2, olap=olap)
    res = a.compute_single_bin(freq, fres=fres, L=L)
    W.goal("one-kernel-call", len(rec.calls) == 1)
    if len(rec.calls) != 1:
        return
    d = res._data
    segL = int(d["L"][0])
    starts = rnp.asarray(d["D"][0]).astype(int)
    Kn = len(starts)
    expL = L if L is not None else max(1, int(round(fs / fres)))
    W.goal("L", segL == expL, got=segL)
    # what C05 needs of the reported segmentation: every segment inside the record, first at 0, last ending at N (or one whole-record segment)
    W.goal("segmentation/starts-valid", Kn >= 1 and starts[0] == 0 and bool(rnp.all(rnp.diff(starts) >= 0)) and starts[-1] + segL <= N and (Kn == 1 or starts[-1] == N - segL), starts=starts.tolist())
    W.goal("segmentation/K=navg=len", int(d["K"][0]) == Kn and int(d["navg"][0]) == Kn)
    c = rec.calls[0]
    ref_w = _check_call(W, "call", c, a, order, iscsd, backend, segL, starts, freq, fs, win_kind, alpha, rec, x1, x2)
    ret = c["ret"]
    W.goal("XX", W.eq(d["XX"][0], ret[0])); W.goal("YY", W.eq(d["YY"][0], ret[1])); W.goal("XY", W.eq(d["XY"][0], SC(ret[2], ret[3]))); W.goal("M2", W.eq(d["M2"][0], ret[4]))
    if ref_w is not None:
        S1 = sum(ref_w[i] for i in range(segL)); S2 = sum(ref_w[i] * ref_w[i] for i in range(segL))
        W.goal("S12=(sum w)^2", W.eq(d["S12"][0], S1 * S1)); W.goal("S2=sum w^2", W.eq(d["S2"][0], S2))
    W.goal("f=freq", W.eq(d["f"][0], freq))


def _concrete_single(W, N, L, fres, olap, order, iscsd, backend, win_kind, freq):
    import speckit.analysis as A
    rng = rnp.random.default_rng(11)
    data = rng.standard_normal((2, N)) if iscsd else rng.standard_normal(N)
    ok = True
    info = {}
    try:
        a = A.SpectrumAnalyzer(data, 1.0, order=order, backend=backend, win=("kaiser" if win_kind == "kaiser" else "hann"), psll=120, olap=olap)
        res = a.compute_single_bin(min(abs(freq), 0.5), fres=fres, L=L)
        segL = int(res.L[0]); st = rnp.asarray(res.D[0]).astype(int)
        alpha = a.config.get("alpha")
        w = rnp.kaiser(segL + 1, alpha * rnp.pi)[:-1] if win_kind == "kaiser" else rnp.hanning(segL)
        x1 = data[0] if iscsd else data; x2 = data[1] if iscsd else None
        ref = _ref_stats(x1, x2, st, segL, w, 2 * math.pi * float(res.f[0]) / 1.0, order)
        got = [res.XX[0], res.YY[0], res.XY[0].real, res.XY[0].imag, res.M2[0]]
        sc = 1e-9 * (1 + abs(ref[0]) + abs(ref[1]))
        ok = all(abs(g - r) <= sc + 1e-7 * abs(r) for g, r in zip(got, ref))
        ok = ok and abs(res.S12[0] - w.sum() ** 2) <= 1e-9 * max(1e-300, w.sum() ** 2) and abs(res.S2[0] - (w * w).sum()) <= 1e-9 * (w * w).sum()
        ok = ok and st[0] == 0 and st[-1] + segL <= N and (len(st) == 1 or st[-1] == N - segL) and bool(rnp.all(rnp.diff(st) >= 0)) and int(res.K[0]) == len(st)
        ok = ok and abs(res.f[0] - min(abs(freq), 0.5)) <= 1e-12
    except Exception as e:
        ok = False
        W.note("real compute_single_bin raised %r" % (e,))
    W.resolver = lambda name: ok


def ob_band(W, iscsd):
    """plan() with a band: every per-bin field of the restricted plan is the in-band sub-sequence of the unrestricted one"""
    import speckit.analysis as A
    nf = 3
    fs = 1.0
    fv = [W.real("f%d" % j) for j in range(nf)]
    lo, hi = W.real("band_lo"), W.real("band_hi")
    Ls = [8, 6, 4]; Ks = [1, 2, 3]; N = 8
    D = [rnp.array([0]), rnp.array([0, 2]), rnp.array([0, 2, 4])]
    if W.sym:
        W.assume(fv[0] > 0); W.assume(fv[0] < fv[1]); W.assume(fv[1] < fv[2]); W.assume(hi >= lo)
        mk = oarr
    else:
        if not (0 < fv[0] < fv[1] < fv[2] and hi >= lo):
            return
        mk = lambda xs: rnp.array(xs, dtype=float)
    rv_ = [W.real("r%d" % j) for j in range(nf)]; bv = [W.real("b%d" % j) for j in range(nf)]; ov = [W.real("o%d" % j) for j in range(nf)]

    def sched(**kw):
        return {"f": mk(fv), "r": mk(rv_), "b": mk(bv), "L": rnp.array(Ls), "K": rnp.array(Ks), "navg": rnp.array(Ks), "D": [d.copy() for d in D], "O": mk(ov), "nf": nf}
    from symx.shim import clone_module
    GA = clone_module(A, dict(np=NumpyShim())) if W.sym else None
    a = object.__new__(GA["SpectrumAnalyzer"] if W.sym else A.SpectrumAnalyzer)
    a.fs = fs; a.nx = N; a.verbose = False; a.iscsd = iscsd; a._plan_cache = None
    a.config = {"scheduler_func": sched, "scheduler_name": "stub", "final_olap": 0.5, "bmin": 1.0, "Lmin": 1, "Kdes": 10, "Jdes": 5, "force_target_nf": False, "band": (lo, hi), "num_patch_pts": None}
    if W.sym:
        W.run.concrete_masks = True
    try:
        p = a.plan()
    except ValueError as e:
        # legitimate only when no bin lies in the band
        none_in = W.And(*[W.Or(W.lt(fv[j], lo), W.gt(fv[j], hi)) for j in range(nf)]) if W.sym else all((fv[j] < lo or fv[j] > hi) for j in range(nf))
        W.goal("band/raises-only-when-empty", none_in, msg=str(e)[:80])
        return
    keep = [j for j in range(nf) if bool(W.And(W.ge(fv[j], lo), W.le(fv[j], hi)) if W.sym else (lo <= fv[j] <= hi))]
    W.goal("band/nf", int(p["nf"]) == len(keep) and len(p["f"]) == len(keep) and len(p["D"]) == len(keep), keep=keep)
    if len(p["f"]) != len(keep):
        return
    for i, j in enumerate(keep):
        W.goal("band/f[%d]" % i, W.eq(p["f"][i], fv[j])); W.goal("band/r[%d]" % i, W.eq(p["r"][i], rv_[j])); W.goal("band/b[%d]" % i, W.eq(p["b"][i], bv[j]))
        W.goal("band/O[%d]" % i, W.eq(p["O"][i], ov[j]))
        W.goal("band/L,K,navg[%d]" % i, int(p["L"][i]) == Ls[j] and int(p["K"][i]) == Ks[j] and int(p["navg"][i]) == Ks[j])
        W.goal("band/D[%d]" % i, rnp.array_equal(rnp.asarray(p["D"][i]), D[j]))


def obligations(tier):
    obs = []
    pats = [([6, 6, 6], [1, 2, 2]), ([6, 6, 4], [2, 2, 3]), ([6, 4, 6], [1, 3, 2]), ([4, 6, 6], [3, 1, 1]), ([8, 6, 4], [1, 2, 3])]
    combos = []
    if tier == "quick":
        # covering design: every order, mode, backend and window kind appears with every L pattern at least once
        cyc = list(itertools.product((-1, 0, 1, 2), (False, True)))
        bks = ["numba", "numpy", "cuda", "auto"]
        for pi, (Ls, Ks) in enumerate(pats):
            for ci, (order, cs) in enumerate(cyc):
                combos.append((Ls, Ks, order, cs, bks[(ci + pi) % 4], "kaiser" if (ci + pi) % 2 == 0 else "other"))
    else:
        for (Ls, Ks) in pats:
            for order, cs, bk, wk in itertools.product((-1, 0, 1, 2), (False, True), ("numba", "numpy", "cuda", "auto"), ("kaiser", "other")):
                combos.append((Ls, Ks, order, cs, bk, wk))
    for (Ls, Ks, order, cs, bk, wk) in combos:
        obs.append({"name": "compute/L%s/o%d/%s/%s/%s" % ("-".join(map(str, Ls)), order, "csd" if cs else "auto", bk, wk), "fn": "ob_compute",
                    "params": dict(Ls=Ls, Ks=Ks, order=order, iscsd=cs, backend=bk, win_kind=wk)})
    # auto backend switches to cuda above 1000 segments
    for order, cs, bk, wk in ((0, True, "numba", "kaiser"), (-1, False, "numpy", "kaiser"), (2, True, "cuda", "kaiser"), (1, False, "auto", "other")):
        obs.append({"name": "compute/after-prior-analysis/o%d/%s/%s/%s" % (order, "csd" if cs else "auto", bk, wk), "fn": "ob_compute",
                    "params": dict(Ls=[6, 4, 6], Ks=[1, 3, 2], order=order, iscsd=cs, backend=bk, win_kind=wk, prior=True), "weight": 3})
    for order, cs in ((0, True), (2, False)):
        obs.append({"name": "compute/auto-bigK/o%d/%s" % (order, "csd" if cs else "auto"), "fn": "ob_compute",
                    "params": dict(Ls=[4, 4], Ks=[1001, 2], order=order, iscsd=cs, backend="auto", win_kind="kaiser"), "weight": 5})
    for si, (N, L, fres, olap) in enumerate(SHAPES):
        sel = [(-1, False, "numba", "kaiser"), (0, True, "numpy", "other"), (1, True, "cuda", "kaiser"), (2, False, "auto", "other")]
        if tier == "thorough":
            sel = list(itertools.product((-1, 0, 1, 2), (False, True), ("numba", "numpy", "cuda"), ("kaiser", "other")))
        else:
            sel = [sel[si % 4], sel[(si + 1) % 4]]
        for order, cs, bk, wk in sel:
            obs.append({"name": "single/N%d_L%s_fres%s_olap%s/o%d/%s/%s/%s" % (N, L, fres, olap, order, "csd" if cs else "auto", bk, wk), "fn": "ob_single",
                        "params": dict(N=N, L=L, fres=fres, olap=olap, order=order, iscsd=cs, backend=bk, win_kind=wk), "fork": True, "max_paths": 16})
    for cs in (False, True):
        obs.append({"name": "band/%s" % ("csd" if cs else "auto"), "fn": "ob_band", "params": {"iscsd": cs}, "fork": True, "max_paths": 400})
    return obs
