"""C10 -- analytic error bars are the Bendat-Piersol expressions."""
from fractions import Fraction as F
import math
from . import result as R

PROPERTY = "C10"
META = {
    "bounds": "one generic bin: XX,YY>0, XY complex with 0<|XY|^2<=XX*YY, S2,S12,fs>0, n any integer >=1 (all symbolic, unbounded); auto and cross results",
    "outside": ["agreement with the observed Monte-Carlo scatter (statistical clause)", "IEEE rounding"],
    "stubs": ["arcsin -> uninterpreted with u<=asin(u)<=(pi/2)u on [0,1], asin(0)=0", "sqrt -> r>=0, r*r=arg"],
    "assumptions": ["per-bin statistics satisfy what the kernels establish (C01/C09): XX,YY>0, |XY|^2<=XX*YY"],
}


def encoded_functions():
    return R.encoded()


def _setup(W, cross=True):
    b = R.bin_inputs(W, cross=cross)
    fs = W.real("fs")
    if W.sym:
        W.assume(fs > 0)
        if cross:
            xy = b["XY"]
            W.assume(xy.re * xy.re + xy.im * xy.im > 0)
    r = R.mk(W, [b], cross, fs)
    return b, fs, r


def _coh(W, b):
    xy = b["XY"]
    return (xy.real * xy.real + xy.imag * xy.imag) / (b["XX"] * b["YY"])


FORMULA_KEYS = ("Gxx_dev", "Gyy_dev", "Gxy_dev", "Hxy_dev", "coh_dev", "Gxx_error", "Gyy_error", "Gxy_error", "Hxy_mag_error", "coh_error")


def ob_formulas(W, only, after_plot=None):
    b, fs, r = _setup(W)
    if after_plot:
        # the user plotted the result (with an error band of `sigma` deviations) before reading the error attributes: plot() is a reader
        from . import C14
        for a in ("Gxx_dev", "Gyy_dev", "Gxy_dev", "Hxy_dev", "coh_dev"):
            getattr(r, a)
        for which in after_plot:
            C14.do_plot(W, r, which, {"errors": True, "sigma": 2})
    n = b["navg"]
    g2 = _coh(W, b)
    sq = W.sqrt
    Gxx, Gyy, Gxy, Hxy = R.el(r.Gxx), R.el(r.Gyy), R.el(r.Gxy), R.el(r.Hxy)
    aGxy, aH = W.abs(Gxy), W.abs(Hxy)
    exp = {
        "Gxx_dev": Gxx / sq(n), "Gyy_dev": Gyy / sq(n),
        "Gxy_dev": aGxy / sq(g2 * n),
        "Hxy_dev": aH * sq(1 - g2) / sq(2 * g2 * n),
        "coh_dev": sq(2 * g2) * (1 - g2) / sq(n),
        "Gxx_error": 1 / sq(n), "Gyy_error": 1 / sq(n),
        "Gxy_error": 1 / sq(g2 * n),
        "Hxy_mag_error": sq(1 - g2) / sq(2 * g2 * n),
        "coh_error": sq(2) * (1 - g2) / (sq(g2) * sq(n)),
    }
    got = {k: R.el(getattr(r, k)) for k in exp}
    for k in exp:
        if k in only:
            W.goal("formula/" + k, W.eq(got[k], exp[k]))
            W.goal("nonneg/" + k, W.ge(got[k], 0))
    # deviation = estimate x normalised error
    pairs = {"Gxx": ("Gxx_dev", Gxx, "Gxx_error"), "Gyy": ("Gyy_dev", Gyy, "Gyy_error"), "Gxy": ("Gxy_dev", aGxy, "Gxy_error"),
             "Hxy": ("Hxy_dev", aH, "Hxy_mag_error"), "coh": ("coh_dev", R.el(r.coh), "coh_error")}
    for nm, (d, est, e) in pairs.items():
        if "pair:" + nm in only:
            W.goal("dev=est*err/" + nm, W.eq(got[d], est * got[e]))


def ob_auto(W):
    b, fs, r = _setup(W, cross=False)
    n = b["navg"]
    Gxx = R.el(r.Gxx)
    W.goal("auto/Gxx_dev", W.eq(R.el(r.Gxx_dev), Gxx / W.sqrt(n)))
    W.goal("auto/Gyy_dev", W.eq(R.el(r.Gyy_dev), Gxx / W.sqrt(n)))
    W.goal("auto/Gxx_error", W.eq(R.el(r.Gxx_error), 1 / W.sqrt(n)))
    W.goal("auto/Gyy_error", W.eq(R.el(r.Gyy_error), 1 / W.sqrt(n)))
    for k in ("Hxy_dev", "Gxy_dev", "coh_dev", "Gxy_error", "Hxy_mag_error", "Hxy_rad_error", "Hxy_deg_error", "coh_error"):
        W.goal("auto/None/" + k, getattr(r, k) is None)


def ob_scaling(W):
    """n -> 4n halves every deviation and error"""
    b = R.bin_inputs(W, cross=True)
    fs = W.real("fs")
    if W.sym:
        W.assume(fs > 0)
        W.assume(b["XY"].re * b["XY"].re + b["XY"].im * b["XY"].im > 0)
    b4 = dict(b)
    b4["navg"] = b["navg"] * 4
    r1, r4 = R.mk(W, [b], True, fs), R.mk(W, [b4], True, fs)
    for k in ("Gxx_dev", "Gyy_dev", "Gxy_dev", "Hxy_dev", "coh_dev", "Gxx_error", "Gyy_error", "Gxy_error", "Hxy_mag_error", "coh_error"):
        W.goal("quarter/" + k, W.eq(R.el(getattr(r4, k)) * 2, R.el(getattr(r1, k))))


def ob_phase(W):
    b, fs, r = _setup(W)
    n = b["navg"]
    g2 = _coh(W, b)
    rad, mag, deg = R.el(r.Hxy_rad_error), R.el(r.Hxy_mag_error), R.el(r.Hxy_deg_error)
    R.add_fun_facts(W)
    pi = float(R.PI) if not W.sym else R.PI
    W.goal("phase>=mag", W.ge(rad, mag))
    W.goal("phase<=pi/2*mag", W.le(rad, mag * pi / 2))
    W.goal("deg=rad*180/pi", W.eq(deg * pi, rad * 180))
    # structure: rad = asin(sqrt(1-g2))/sqrt(2 g2 n)
    if W.sym:
        import z3
        apps = W.run.uapps.get("asin", [])
        W.goal("asin-applied-once", len(apps) >= 1)
        if apps:
            u, a = apps[0]
            from symx.proxy import SR
            W.goal("phase/arg", W.eq(SR(u) * SR(u), 1 - g2))
            W.goal("phase/form", W.eq(rad * W.sqrt(2 * g2 * n), SR(a)))
    else:
        W.goal("phase/form", W.eq(rad * math.sqrt(2 * g2 * n), math.asin(math.sqrt(max(0.0, 1 - g2)))))


def ob_coh1(W):
    """as coherence tends to 1 the two coincide: at g2=1 both are zero"""
    b, fs, r = _setup(W)
    xy = b["XY"]
    if W.sym:
        W.assume(xy.re * xy.re + xy.im * xy.im == b["XX"] * b["YY"])
    R_rad, R_mag = R.el(r.Hxy_rad_error), R.el(r.Hxy_mag_error)
    R.add_fun_facts(W)
    W.goal("coh=1/equal", W.eq(R_rad, R_mag))
    W.goal("coh=1/zero", W.eq(R_mag, 0))
    W.goal("coh=1/coh_dev", W.eq(R.el(r.coh_dev), 0))


def obligations(tier):
    to = 30 if tier == "quick" else 120
    obs = [{"name": n, "fn": n, "params": {}, "timeout": to} for n in ("ob_auto", "ob_scaling", "ob_phase", "ob_coh1")]
    for k in FORMULA_KEYS + tuple("pair:" + p for p in ("Gxx", "Gyy", "Gxy", "Hxy", "coh")):
        obs.append({"name": "ob_formulas/" + k.replace(":", "_"), "fn": "ob_formulas", "params": {"only": [k]}, "timeout": to})
    # the deviations still equal estimate x normalised error after the result was plotted with a 2-sigma error band
    for p_, plots in (("Gxx", ["psd"]), ("Gyy", ["psd"]), ("Gxy", ["csd"]), ("Hxy", ["cf"]), ("coh", ["coh"])):
        obs.append({"name": "ob_formulas/after-plot/pair_" + p_, "fn": "ob_formulas", "params": {"only": ["pair:" + p_], "after_plot": plots}, "timeout": to, "fork": True, "max_paths": 8})
    return obs
