"""C15 -- optimal multi-input subtraction yields a physical, consistent residual."""
import itertools, math, cmath
from fractions import Fraction as F
import numpy as rnp
import z3

from symx import ctx
from symx.proxy import SR, SC, plain, Unsupported, tz
from symx.shim import NumpyShim, clone_module, oarr, SymNd
from . import result as R

PROPERTY = "C15"
META = {
    "bounds": {"quick": "q = 1, 2 inputs (numeric and analytic solver, the real sympy.solve/lambdify run), one generic frequency bin whose joint spectral matrix over (x1..xq, y) is ANY Hermitian positive semidefinite matrix with positive definite input block, parametrised by its Cholesky factor (symbolic complex entries, positive diagonal, last pivot >= 0); permutations and invertible real re-mixings M of the inputs (symbolic M for q=2); SISO on a generic bin with complex coupling",
               "thorough": "q = 3 (numeric and analytic), all permutations"},
    "outside": ["q = 4", "the ill-conditioned branch (cond > 1e12) for SINGULAR matrices and the rank cut-off of np.linalg.pinv (pinv is encoded as the inverse of a nonsingular matrix)", "estimation of the spectral matrix from data (C01/C09): here `ltf` is a stub returning consistent spectra"],
    "stubs": ["ltf -> result objects whose Gxx/Gyy/Gxy are drawn from ONE joint Hermitian spectral matrix (Gxy = E[X conj Y], the convention proved for the kernels in C01)", "np.linalg.solve -> Cramer's rule on the symbolic matrix; np.linalg.cond -> 1 (well-conditioned branch) or 1e13 (obligations agree/*/ill-conditioned: fallback branch); np.linalg.pinv -> inverse by Cramer's rule", "sympy: not stubbed"],
    "assumptions": ["bin averaged over more than q segments <=> input spectral matrix positive definite (Cholesky parametrisation)"],
}


def encoded_functions():
    import speckit.systems as S
    return [S.SISO_optimal_spectral_analysis, S.MISO_analytic_optimal_spectral_analysis, S.MISO_numeric_optimal_spectral_analysis]


# ----------------------------------------------------------------------------- joint spectral matrix
def cholesky_inputs(W, n, last_zero=False):
    """lower-triangular L (n x n): positive real diagonal (last pivot >= 0 or == 0), symbolic complex below"""
    L = [[0] * n for _ in range(n)]
    for i in range(n):
        for j in range(i):
            re, im = W.real("l%d%dr" % (i, j)), W.real("l%d%di" % (i, j))
            L[i][j] = SC(re, im) if W.sym else complex(re, im)
        d = W.real("l%d%d" % (i, i), lo=0)
        if W.sym:
            if i < n - 1:
                W.assume(d > 0)
            elif last_zero:
                W.assume(d == 0)
        L[i][i] = d
    ok = W.sym or all(L[i][i] > 0 for i in range(n - 1)) and (not last_zero or L[n - 1][n - 1] == 0)
    return L, ok


def gram(W, L):
    n = len(L)
    G = [[None] * n for _ in range(n)]
    for i in range(n):
        for j in range(n):
            acc = 0
            for k in range(min(i, j) + 1):
                a, b = L[i][k], L[j][k]
                bc = b.conjugate() if hasattr(b, "conjugate") else b
                acc = acc + a * bc
            G[i][j] = acc
    return G


def mix(G, M):
    """spectral matrix of (M x, y): M~ G M~^H with M~ = diag(M, 1), M real"""
    n = len(G); q = n - 1
    Mt = [[(M[i][j] if (i < q and j < q) else (1 if i == j else 0)) for j in range(n)] for i in range(n)]
    out = [[0] * n for _ in range(n)]
    for i in range(n):
        for j in range(n):
            acc = 0
            for a in range(n):
                for b in range(n):
                    if (isinstance(Mt[i][a], int) and Mt[i][a] == 0) or (isinstance(Mt[j][b], int) and Mt[j][b] == 0):
                        continue
                    acc = acc + G[a][b] * Mt[i][a] * Mt[j][b]
            out[i][j] = acc
    return out


class _Res:
    pass


def make_ltf(W, G, q, chan_of):
    def arr(v):
        return oarr([v]) if W.sym else rnp.array([v])

    def ltf(data, fs, **kw):
        r = _Res()
        r.f = rnp.array([1.0]); r.nf = 1
        if isinstance(data, (list, tuple)):
            i, j = chan_of(data[0]), chan_of(data[1])
            r.Gxx, r.Gyy, r.Gxy = arr(G[i][i]), arr(G[j][j]), arr(G[i][j])
            r.iscsd = True
        else:
            i = chan_of(data)
            r.Gxx = arr(G[i][i]); r.Gyy = r.Gxx; r.Gxy = r.Gxx
            r.iscsd = False
        return r
    return ltf


def cramer_solve(T, S):
    T = [[SC.lift(plain(T[i][j])) for j in range(len(S))] for i in range(len(S))]
    S = [SC.lift(plain(v)) for v in S]
    n = len(S)

    def det(M):
        if len(M) == 1:
            return M[0][0]
        if len(M) == 2:
            return M[0][0] * M[1][1] - M[0][1] * M[1][0]
        tot = None
        for c in range(len(M)):
            minor = [row[:c] + row[c + 1:] for row in M[1:]]
            term = M[0][c] * det(minor)
            term = term if c % 2 == 0 else -term
            tot = term if tot is None else tot + term
        return tot
    D = det(T)
    out = []
    for k in range(n):
        Mk = [[(S[i] if j == k else T[i][j]) for j in range(n)] for i in range(n)]
        out.append(det(Mk) / D)
    return oarr(out)


def _channels(q, int_first=False):
    """q concrete input records + the output record, and the map record -> channel number used by the `ltf` stand-in.  The records
    have fractional values (so that a cast to an integer type changes them); with int_first the first input is an integer-dtype
    array (raw counts).  A record that is not one of the caller's channels any more is a contract violation of the solver."""
    ins = [rnp.array([i + 1.5, 0.25 * (i + 1), -0.75, 0.5]) for i in range(q)]
    if int_first:
        ins[0] = rnp.array([3, -1, 4, 2], dtype=rnp.int64)
    out = rnp.array([9.5, 0.125, -2.25, 1.75])
    table = {tuple(float(v) for v in a): i for i, a in enumerate(ins)}
    table[tuple(float(v) for v in out)] = q

    def chan_of(a):
        key = tuple(float(v) for v in rnp.asarray(a).reshape(-1))
        if key not in table:
            from symx.proxy import ContractViolation
            raise ContractViolation("the solver analysed a record that is not one of the caller's channels: %r" % (key,))
        return table[key]
    return ins, out, chan_of


def pinv_stub(T, **k):
    """np.linalg.pinv of a nonsingular matrix is its inverse (the harness's spectral matrices have positive Cholesky pivots)"""
    T = rnp.asarray(T, dtype=object)
    n = T.shape[0]
    cols = [cramer_solve([list(r) for r in T], [1 if i == c else 0 for i in range(n)]) for c in range(n)]
    out = rnp.empty((n, n), dtype=object)
    for c in range(n):
        for i in range(n):
            out[i, c] = cols[c][i]
    from symx.shim import SymNd
    return out.view(SymNd)


def _prior_gram(W, q):
    """spectral matrix of an EARLIER, unrelated data set (fixed rational Cholesky factor)"""
    n = q + 1
    L0 = [[0] * n for _ in range(n)]
    for i in range(n):
        for j in range(i + 1):
            if i == j:
                L0[i][j] = SR(z3.RealVal(i + 2)) if W.sym else float(i + 2)
            else:
                L0[i][j] = SC(SR(z3.RealVal(i - j)), SR(z3.RealVal(j + 1))) if W.sym else complex(i - j, j + 1)
    return gram(W, L0)


def run_miso(W, which, q, G, order=None, illcond=False, int_first=False, prior=False):
    import speckit.systems as S
    ins, out, chan = _channels(q, int_first)
    order = list(order) if order is not None else list(range(q))
    ltf_now = make_ltf(W, G, q, chan)
    cur = [make_ltf(W, _prior_gram(W, q), q, chan) if prior else ltf_now]

    def ltf(*a, **k):
        return cur[0](*a, **k)
    fn = {"numeric": "MISO_numeric_optimal_spectral_analysis", "analytic": "MISO_analytic_optimal_spectral_analysis"}[which]
    if W.sym:
        from symx import shim as _sh
        NP = NumpyShim(linalg_solve=lambda T, Sv: cramer_solve(T, Sv), linalg_cond=lambda T: (1e13 if illcond else 1.0), linalg_pinv=pinv_stub, allclose=lambda a, b, **k: bool(rnp.allclose(a, b, **k)))
        Gm = clone_module(S, dict(np=NP, ltf=ltf))
        W.run.poly_div = True
        if prior:
            # call history: the same solver ran on another data set of the same shape earlier in the process
            Gm[fn]([ins[i] for i in order], out, 1.0)
            cur[0] = ltf_now
        del _sh.CSQRT_ARGS[:]
        f, asd = Gm[fn]([ins[i] for i in order], out, 1.0)
        W.last_radicand = _sh.CSQRT_ARGS[-1] if _sh.CSQRT_ARGS else None
    else:
        old = S.ltf
        S.ltf = ltf
        try:
            if prior:
                getattr(S, fn)([ins[i] for i in order], out, 1.0)
                cur[0] = ltf_now
            f, asd = getattr(S, fn)([ins[i] for i in order], out, 1.0)
        finally:
            S.ltf = old
    return asd[0]


def ob_miso(W, which, q, case):
    L, ok = cholesky_inputs(W, q + 1, last_zero=(case == "exact-combination"))
    if not ok:
        return
    G = gram(W, L)
    pivot2 = L[q][q] * L[q][q]
    S00 = G[q][q]
    S00r = S00.real if hasattr(S00, "real") else S00
    def radicand_lemmas(tag):
        # stepping stones on the quantity under the square root (S00 - Sum1 - Sum2 + Sum3): it is real and equals the Schur complement
        z = getattr(W, "last_radicand", None)
        if W.sym and z is not None:
            W.lemma(tag + "/radicand is real", W.eq(z.imag, 0))
            W.lemma(tag + "/radicand = Schur complement", W.eq(z.real, pivot2))
    if case == "residual-after-prior-call":
        if W.sym:
            # a box of concrete generic values to look for a counterexample in when the full (nonlinear) query is inconclusive
            W.nice = [tz(L[i][i]) == z3.RealVal(i + 1) / 2 for i in range(q + 1)]
            for i in range(q + 1):
                for j in range(i):
                    W.nice += [tz(L[i][j].re) == z3.RealVal(2 * i + j + 1) / 4, tz(L[i][j].im) == z3.RealVal(i - 2 * j - 1) / 8]
        asd = run_miso(W, which, q, G, prior=True)
        radicand_lemmas("residual")
        W.goal("second call in the process: residual^2 = Schur complement of ITS data", W.eq(asd * asd, pivot2))
    elif case in ("residual", "exact-combination"):
        asd = run_miso(W, which, q, G)
        radicand_lemmas("residual")
        W.goal("residual^2 = Schur complement (last Cholesky pivot^2)", W.eq(asd * asd, pivot2))
        W.goal("0 <= residual^2 <= S00", W.And(W.ge(asd * asd, 0), W.le(asd * asd, S00r)))
        if case == "exact-combination":
            W.goal("exact static combination -> 0", W.eq(asd, 0))
    elif case.startswith("perm"):
        perm = [int(c) for c in case[4:]]
        asd = run_miso(W, which, q, G, order=perm)
        radicand_lemmas("perm")
        W.goal("permutation-invariant", W.eq(asd * asd, pivot2))
    elif case == "remix":
        M = [[W.real("m%d%d" % (i, j)) for j in range(q)] for i in range(q)]
        detM = M[0][0] if q == 1 else (M[0][0] * M[1][1] - M[0][1] * M[1][0])
        if W.sym:
            W.assume(detM != 0)
        elif abs(detM) < 1e-6:
            return
        asd = run_miso(W, which, q, mix(G, M))
        radicand_lemmas("remix")
        W.goal("invariant under invertible re-mixing of the inputs", W.eq(asd * asd, pivot2))


def ob_miso_q4(W):
    q = 4
    vals = [[2], [1, 3], [-1, 2, 2], [3, -2, 1, 4]]
    ims = [[0], [2, 0], [1, -3, 0], [-2, 1, 2, 0]]
    L = [[0] * (q + 1) for _ in range(q + 1)]
    for i in range(q):
        for j in range(i + 1):
            if i == j:
                L[i][j] = F(vals[i][j]) if W.sym else float(vals[i][j])
            else:
                L[i][j] = SC(SR(z3.RealVal(vals[i][j])), SR(z3.RealVal(ims[i][j]))) if W.sym else complex(vals[i][j], ims[i][j])
    for j in range(q):
        re, im = W.real("s%dr" % j), W.real("s%di" % j)
        L[q][j] = SC(re, im) if W.sym else complex(re, im)
    L[q][q] = W.real("pivot", lo=0)
    if W.sym:
        for i in range(q):
            L[i][i] = SR(z3.RealVal(vals[i][i]))
    G = gram(W, L)
    asd = run_miso(W, "numeric", q, G)
    z = getattr(W, "last_radicand", None)
    pivot2 = L[q][q] * L[q][q]
    if W.sym and z is not None:
        W.lemma("q4/radicand is real", W.eq(z.imag, 0))
        W.lemma("q4/radicand = Schur complement", W.eq(z.real, pivot2))
    W.goal("q4/residual^2 = Schur complement", W.eq(asd * asd, pivot2))


def ob_agree(W, q, illcond=False, int_first=False):
    L, ok = cholesky_inputs(W, q + 1)
    if not ok:
        return
    if int_first:
        # inputs of mixed dtype (integer counts first): every channel must reach the spectral estimator with its values intact
        G = gram(W, L)
        pivot2 = L[q][q] * L[q][q]
        for which in ("numeric", "analytic"):
            a = run_miso(W, which, q, G, int_first=True)
            W.goal("%s/residual^2 = Schur complement with an integer-dtype first input" % which, W.eq(a * a, pivot2))
        return
    if illcond and W.sym:
        # replay-friendly models: inputs in very different units (second pivot 2^-24 of the first), so that the REAL np.linalg.cond
        # exceeds 1e12 and the real code takes the same branch as the symbolic run (whose cond stub returns 1e13)
        W.nice = [tz(L[0][0]) == 1, tz(L[1][1]) == z3.RealVal(1) / z3.RealVal(2 ** 24), tz(L[1][0].re) == 0, tz(L[1][0].im) == 0]
    G = gram(W, L)
    a, b = run_miso(W, "numeric", q, G, illcond=illcond), run_miso(W, "analytic", q, G)
    W.goal("analytic = numeric", W.eq(a * a, b * b))


def ob_siso(W):
    """one input: sqrt(Gyy*(1-coh)), including a complex (phase/delay) coupling"""
    import speckit.systems as S
    b = R.bin_inputs(W, cross=True, pos=True, psd_cs=True)
    fs = W.real("fs")
    if W.sym:
        W.assume(fs > 0)
    elif not fs > 0:
        return
    r = R.mk(W, [b], True, fs)
    ltf = lambda data, fs_, **kw: r
    x = rnp.array([1.0, 2.0, 3.0]); y = rnp.array([2.0, 1.0, 0.0])
    if W.sym:
        Gm = clone_module(S, dict(np=NumpyShim(), ltf=ltf))
        f, asd = Gm["SISO_optimal_spectral_analysis"](x, y, fs)
    else:
        old = S.ltf
        S.ltf = ltf
        try:
            f, asd = S.SISO_optimal_spectral_analysis(x, y, fs)
        finally:
            S.ltf = old
    xy = b["XY"]
    coh = (xy.real * xy.real + xy.imag * xy.imag) / (b["XX"] * b["YY"])
    Gyy = b["YY"] * 2 / (fs * b["S2"])
    W.goal("siso/residual^2 = Gyy*(1-coh)", W.eq(asd[0] * asd[0], Gyy * (1 - coh)))
    W.goal("siso/residual>=0", W.ge(asd[0], 0))


def obligations(tier):
    obs = [{"name": "siso", "fn": "ob_siso", "params": {}, "fork": True, "max_paths": 8}]
    # q = 4 (numeric solver): input block of the spectral matrix fixed to a generic rational positive definite matrix, the couplings
    # to the output symbolic -- reaches index-bookkeeping errors that only show from four inputs on
    obs.append({"name": "numeric/q4/residual-fixedT", "fn": "ob_miso_q4", "params": {}, "fork": True, "max_paths": 64, "timeout": 120, "weight": 30})
    qs = (1, 2) if tier == "quick" else (1, 2, 3)
    to = 60 if tier == "quick" else 600
    for q in qs:
        for which in ("numeric", "analytic"):
            for case in ("residual", "exact-combination") + (("residual-after-prior-call",) if q <= 2 else ()):
                obs.append({"name": "%s/q%d/%s" % (which, q, case), "fn": "ob_miso", "params": {"which": which, "q": q, "case": case}, "fork": True, "max_paths": 64, "timeout": to, "weight": q ** 3})
            if q >= 2:
                perms = [p for p in itertools.permutations(range(q)) if list(p) != list(range(q))]
                for p in (perms if tier == "thorough" or q == 2 else perms[:2]):
                    obs.append({"name": "%s/q%d/perm%s" % (which, q, "".join(map(str, p))), "fn": "ob_miso", "params": {"which": which, "q": q, "case": "perm" + "".join(map(str, p))}, "fork": True, "max_paths": 64, "timeout": to, "weight": q ** 3})
            if q <= 2:
                obs.append({"name": "%s/q%d/remix" % (which, q), "fn": "ob_miso", "params": {"which": which, "q": q, "case": "remix"}, "fork": True, "max_paths": 64, "timeout": to, "weight": 20})
        obs.append({"name": "agree/q%d" % q, "fn": "ob_agree", "params": {"q": q}, "fork": True, "max_paths": 64, "timeout": to, "weight": q ** 3})
        if q == 2:
            obs.append({"name": "agree/q%d/int-first-input" % q, "fn": "ob_agree", "params": {"q": q, "int_first": True}, "fork": True, "max_paths": 64, "timeout": to, "weight": q ** 3})
        if q == 2:     # (a 1x1 matrix has condition number 1: the fallback branch is unreachable for one input)
            obs.append({"name": "agree/q%d/ill-conditioned" % q, "fn": "ob_agree", "params": {"q": q, "illcond": True}, "fork": True, "max_paths": 64, "timeout": to, "weight": q ** 3})
    return obs
