"""C18 -- synthesised noise has the prescribed spectrum."""
import math
from fractions import Fraction as F
import numpy as rnp
import z3

from symx import ctx
from symx.proxy import SR, SC, plain
from symx.shim import NumpyShim, clone, clone_module, oarr, SymNd
from .C17 import SymRng, _RandomNS

PROPERTY = "C18"
TAU_DB = 1.25
META = {
    "bounds": {"quick": "white: symbolic psd, fs; fftnoise: spectra of N=2..9 symbolic complex bins with symbolic unit phasors; band_limited_noise: N in {4,5,8,9} with symbolic band edges and sample rate; shaping filter: 6 configurations (alpha in {0.5,1,2} at (100,0.01,10), 1.5 at (2,1e-3,1), alpha=2 on bands wholly above and wholly below 1 Hz), for each the real constructor's coefficients are taken as exact rationals and the band [2*fmin_eff, fmax_eff/2] is covered by cells (50 per decade; the cell width is part of the tolerance: a cell's target interval is [f_b^-alpha*10^(-tau/10), f_a^-alpha*10^(tau/10)]) on each of which the solver decides EVERY frequency",
               "thorough": "16 configurations (alpha in {0.01,0.25,0.5,1,1.5,2} x 2 band set-ups, alpha=1 over 3.3 decades at fs=1000, three bands not containing 1 Hz), 100 cells per decade"},
    "outside": ["(alpha, fs, fmin, fmax) off the grid", "bands reaching below 1.6e-4*fs (the response is a rational function of cos(omega); cell enclosures are widened by 1e-12, which needs 1-cos(omega) >> 1e-12)", "the two corner octaves (a cascade of first-order sections is 3*alpha/2 dB off at a corner by construction)", "numpy's ifft (the property is stated on the array handed to it)"],
    "stubs": ["np.fft.ifft -> captures its argument", "np.fft.fftfreq -> the documented grid k/(N*d)", "rng.random -> fresh symbols; cos/sin of the random phase -> a symbolic unit phasor"],
    "assumptions": ["reading of 'about 1 dB between its lower and upper corner': within %.2f dB on [2*fmin_eff, fmax_eff/2] (fixed before looking at what passes, DESIGN.md section 4 C18)" % TAU_DB],
}
CFG = {}


def encoded_functions():
    import speckit.noise as Nz
    return [Nz.white_noise.__init__, Nz.white_noise.get_series, Nz.fftnoise, Nz.band_limited_noise, Nz.alpha_noise.__init__, Nz.alpha_noise._calc_filter_coeffs, Nz._numba_lfilter_cascade]


# ----------------------------------------------------------------------------- white
def ob_white(W):
    import speckit.noise as Nz
    fs = W.real("fs"); psd = W.real("psd", lo=0)
    calls = []

    class Rng:
        def normal(self, loc=0.0, scale=1.0, size=None):
            calls.append((loc, scale, size))
            return rnp.zeros(size if size is not None else 1)
    if W.sym:
        W.assume(fs > 0)
        NP = NumpyShim(random=type("R", (), {"default_rng": staticmethod(lambda seed=None: Rng())}))
        G = clone_module(Nz, dict(np=NP))
        g = G["white_noise"](fs, psd=psd, seed=1)
    else:
        if not fs > 0:
            return
        g = Nz.white_noise(fs, psd=psd, seed=1)
        g._rng = Rng()
    W.goal("rms^2=psd*fs", W.eq(g.rms * g.rms, psd * fs))
    W.goal("rms>=0", W.ge(g.rms, 0))
    out = g.get_series(5)
    W.goal("draws N(0, rms) of the requested length", len(calls) == 1 and calls[0][0] == 0.0 and calls[0][2] == 5 and bool(W.eq(calls[0][1], g.rms)) if not W.sym else (len(calls) == 1 and calls[0][0] == 0.0 and calls[0][2] == 5))
    if W.sym and len(calls) == 1:
        W.goal("scale=rms", W.eq(calls[0][1], g.rms))


# ----------------------------------------------------------------------------- fftnoise
class _Series:
    """a time series known through its DFT (what np.fft.ifft / irfft return, by contract)"""
    def __init__(self, spec):
        self.spec = list(spec)

    @property
    def real(self):
        # Re x has the spectrum (F[k] + conj F[N-k]) / 2
        N = len(self.spec)
        return _Series([(SC.lift(plain(self.spec[k])) + SC.lift(plain(self.spec[(N - k) % N])).conjugate()) * F(1, 2) for k in range(N)])

    def __len__(self):
        return len(self.spec)


class _Capture:
    def __init__(self):
        self.out = None

    def ifft(self, Fa, n=None):
        self.out = _Series([Fa[k] for k in range(len(Fa))])
        return self.out

    def irfft(self, Fh, n=None):
        # documented: the input is the non-negative-frequency half; imaginary parts of DC and (even n) Nyquist are discarded
        m = len(Fh)
        N = int(n) if n is not None else 2 * (m - 1)
        H = [SC.lift(plain(Fh[k])) for k in range(m)]
        full = [None] * N
        full[0] = SC(H[0].re, H[0].re * 0)
        for k in range(1, (N - 1) // 2 + 1):
            full[k] = H[k]; full[N - k] = H[k].conjugate()
        if N % 2 == 0:
            full[N // 2] = SC(H[N // 2].re, H[N // 2].re * 0)
        self.out = _Series(full)
        return self.out

    def fftfreq(self, n, d=1.0):
        n = int(n)
        ks = list(range(0, (n - 1) // 2 + 1)) + list(range(-(n // 2), 0))
        vals = [k / (d * n) for k in ks]
        return oarr(vals) if any(isinstance(v, SR) for v in vals) else rnp.array(vals, dtype=float)

    def rfftfreq(self, n, d=1.0):
        n = int(n)
        vals = [k / (d * n) for k in range(n // 2 + 1)]
        return oarr(vals) if any(isinstance(v, SR) for v in vals) else rnp.array(vals, dtype=float)


class PhasorRng:
    """rng.random(n) -> phases whose cos/sin are symbolic unit phasors"""
    def __init__(self, W):
        self.W = W
        self.k = 0

    def random(self, n):
        out = []
        for _ in range(int(n)):
            c, s = z3.Real("ph_c%d" % self.k), z3.Real("ph_s%d" % self.k)
            self.k += 1
            self.W.assume(c * c + s * s == 1)
            out.append(_Phase(SR(c), SR(s)))
        return oarr(out)


class _Phase:
    def __init__(self, c, s):
        self.c, self.s = c, s

    def __mul__(self, o):
        if isinstance(o, complex) and o.real == 0 and o.imag in (1.0, -1.0):
            return _IPhase(self, o.imag)      # 1j*phase: the argument of exp(i*phase)
        return self          # phase*2.0*pi: scaling a uniformly random phase is again a generic phase

    __rmul__ = __mul__

    def __neg__(self):
        return _Phase(self.c, SR(z3.RealVal(0)) - self.s)

    def cos(self):
        return self.c

    def sin(self):
        return self.s


class _IPhase:
    """i*phase (or -i*phase): only exp() of it is defined, the unit phasor"""
    def __init__(self, ph, sign):
        self.ph, self.sign = ph, sign

    def exp(self):
        return SC(self.ph.c, self.ph.s if self.sign > 0 else SR(z3.RealVal(0)) - self.ph.s)


def _exp_any(a):
    if isinstance(a, rnp.ndarray) and a.dtype == object and a.size and all(isinstance(e, _IPhase) for e in a.flat):
        return oarr([e.exp() for e in a])
    return NumpyShim().exp(a)


def _fftnoise_sym(W, f_arr):
    import speckit.noise as Nz
    cap = _Capture()
    NP = NumpyShim(fft=cap, cos=lambda a: oarr([e.cos() for e in a]), sin=lambda a: oarr([e.sin() for e in a]), exp=_exp_any)
    G = clone_module(Nz, dict(np=NP))
    x = G["fftnoise"](f_arr, rng=PhasorRng(W))
    if not isinstance(x, _Series):
        from symx.proxy import Unsupported
        raise Unsupported("fftnoise did not return the result of an inverse FFT")
    return x.spec


def ob_fftnoise(W, N):
    import speckit.noise as Nz
    fr = [W.real("fr%d" % k) for k in range(N)]; fi = [W.real("fi%d" % k) for k in range(N)]
    Np = (N - 1) // 2
    if W.sym:
        f_arr = oarr([SC(fr[k], fi[k]) for k in range(N)])
        before = [f_arr[k] for k in range(N)]
        Fa = _fftnoise_sym(W, f_arr)
        Fc = [SC.lift(plain(Fa[k])) for k in range(N)]
        W.goal("input not modified", all(f_arr[k] is before[k] for k in range(N)))
    else:
        f_arr = rnp.array([complex(fr[k], fi[k]) for k in range(N)])
        keep = f_arr.copy()
        x = Nz.fftnoise(f_arr, rng=rnp.random.default_rng(3))
        Fc = list(rnp.fft.fft(x))
        W.goal("input not modified", bool(rnp.array_equal(keep, f_arr)))
        W.goal("output real of length N", x.shape == (N,) and not rnp.iscomplexobj(x))
    for k in range(1, Np + 1):
        W.goal("hermitian[%d]" % k, W.eq(Fc[N - k], Fc[k].conjugate()))
        W.goal("|F[%d]|=|f[%d]|" % (k, k), W.eq(Fc[k].real * Fc[k].real + Fc[k].imag * Fc[k].imag, fr[k] * fr[k] + fi[k] * fi[k]))
    W.goal("DC bin = Re f[0]", W.And(W.eq(Fc[0].imag, 0), W.eq(Fc[0].real, fr[0])))
    if N % 2 == 0:
        W.goal("Nyquist bin = Re f[N/2]", W.And(W.eq(Fc[N // 2].imag, 0), W.eq(Fc[N // 2].real, fr[N // 2])))


def ob_band(W, N):
    import speckit.noise as Nz
    lo, hi, sr = W.real("min_freq", lo=0), W.real("max_freq"), W.real("samplerate")
    if W.sym:
        W.assume(sr > 0); W.assume(hi >= lo); W.assume(hi * 2 <= sr)
        cap = _Capture()
        NP = NumpyShim(fft=cap, cos=lambda a: oarr([e.cos() for e in a]), sin=lambda a: oarr([e.sin() for e in a]), exp=_exp_any)
        G = clone_module(Nz, dict(np=NP))
        x = G["band_limited_noise"](lo, hi, samples=N, samplerate=sr, rng=PhasorRng(W))
        if not isinstance(x, _Series):
            from symx.proxy import Unsupported
            raise Unsupported("band_limited_noise did not return the result of an inverse FFT")
        Fc = [SC.lift(plain(x.spec[k])) for k in range(N)]
    else:
        if not (sr > 0 and hi >= lo >= 0 and hi * 2 <= sr):
            return
        x = Nz.band_limited_noise(lo, hi, samples=N, samplerate=sr, rng=rnp.random.default_rng(5))
        Fc = list(rnp.fft.fft(x))
    ks = list(range(0, (N - 1) // 2 + 1)) + list(range(-(N // 2), 0))
    for i, k in enumerate(ks):
        fk = sr * abs(k) / N
        inside = W.And(W.ge(fk, lo), W.le(fk, hi))
        mag2 = Fc[i].real * Fc[i].real + Fc[i].imag * Fc[i].imag
        W.goal("bin%d: zero outside the band" % i, W.Or(inside, W.eq(mag2, 0)))
        W.goal("bin%d: unit magnitude inside the band" % i, W.Or(W.Not(inside), W.eq(mag2, 1)))


# ----------------------------------------------------------------------------- shaping filter
def config(alpha, fs, fmin, fmax):
    key = (alpha, fs, fmin, fmax)
    if key in CFG:
        return CFG[key]
    import speckit.noise as Nz
    g = Nz.alpha_noise(fs, fmin, fmax, alpha, init_filter=False, seed=1)
    secs = []
    for i in range(g._a_coeffs.shape[0]):
        a0, a1 = (F(float(v)) for v in g._a_coeffs[i])
        b0, b1 = (F(float(v)) for v in g._b_coeffs[i])
        secs.append((a0, a1, b0, b1))
    CFG[key] = dict(secs=secs, scale=F(float(g._scaling)), fmin_eff=float(g.fmin), fmax_eff=float(g.fmax), alpha=alpha, fs=fs, nsec=len(secs))
    return CFG[key]


def _cells(cfgd, per_decade):
    lo, hi = 2 * cfgd["fmin_eff"], cfgd["fmax_eff"] / 2
    if hi <= lo:
        return []
    n = max(1, int(math.ceil(math.log10(hi / lo) * per_decade)))
    return [(lo * (hi / lo) ** (i / n), lo * (hi / lo) ** ((i + 1) / n)) for i in range(n)]


def ob_shape(W, alpha, fs, fmin, fmax, i0, i1, per_decade):
    """two-sided density |H(f)|^2*scale^2 within TAU_DB of f^-alpha for EVERY f of the cells i0..i1-1"""
    d = config(alpha, fs, fmin, fmax)
    cells = _cells(d, per_decade)
    up = F(10 ** (TAU_DB / 10)); dn = F(10 ** (-TAU_DB / 10))
    c = W.real("c")
    for ci in range(i0, min(i1, len(cells))):
        fa, fb = cells[ci]
        # c = cos(2 pi f / fs) is decreasing in f: enclosure slightly widened outwards
        c_hi = F(math.cos(2 * math.pi * fa / fs)) + F(1, 10 ** 12)
        c_lo = F(math.cos(2 * math.pi * fb / fs)) - F(1, 10 ** 12)
        tgt_hi = F(fa ** (-alpha)) * up * (1 + F(1, 10 ** 9))      # f^-alpha is decreasing: max at fa
        tgt_lo = F(fb ** (-alpha)) * dn * (1 - F(1, 10 ** 9))
        if W.sym:
            ct = c.t
            num = z3.RealVal(str(d["scale"] * d["scale"])); den = z3.RealVal(1)
            for (a0, a1, b0, b1) in d["secs"]:
                num = num * (z3.RealVal(str(a0 * a0 + a1 * a1)) + z3.RealVal(str(2 * a0 * a1)) * ct)
                den = den * (z3.RealVal(str(b0 * b0 + b1 * b1)) + z3.RealVal(str(2 * b0 * b1)) * ct)
            inside = z3.And(ct >= z3.RealVal(str(c_lo)), ct <= z3.RealVal(str(c_hi)))
            W.goal("cell%d: denominator>0" % ci, z3.Implies(inside, den > 0))
            W.goal("cell%d: density<=f^-alpha*10^(tau/10)" % ci, z3.Implies(inside, num <= z3.RealVal(str(tgt_hi)) * den), f=[fa, fb])
            W.goal("cell%d: density>=f^-alpha*10^(-tau/10)" % ci, z3.Implies(inside, num >= z3.RealVal(str(tgt_lo)) * den), f=[fa, fb])
        else:
            cc = float(c)
            ok = True
            if float(c_lo) <= cc <= float(c_hi):
                f = math.acos(max(-1.0, min(1.0, cc))) * fs / (2 * math.pi)
                h = float(d["scale"]) ** 2
                for (a0, a1, b0, b1) in d["secs"]:
                    h *= float(a0 * a0 + a1 * a1 + 2 * a0 * a1 * F(cc)) / float(b0 * b0 + b1 * b1 + 2 * b0 * b1 * F(cc))
                err = 10 * math.log10(h / f ** (-alpha))
                ok = abs(err) <= TAU_DB + 1e-6
            for nm in ("cell%d: denominator>0", "cell%d: density<=f^-alpha*10^(tau/10)", "cell%d: density>=f^-alpha*10^(-tau/10)"):
                W.goal(nm % ci, ok)


def ob_shape_wiring(W, alpha, fs, fmin, fmax):
    """the generator really filters unit white noise through those sections and multiplies by `_scaling`"""
    import speckit.noise as Nz
    g = Nz.alpha_noise(fs, fmin, fmax, alpha, init_filter=False, seed=2)
    calls = []
    old = Nz._numba_lfilter_cascade
    try:
        Nz._numba_lfilter_cascade = lambda w, a, b, z: (calls.append((w.copy(), a, b)) or (w * 0 + 1.0, z))
        out = g.get_series(4)
    finally:
        Nz._numba_lfilter_cascade = old
    W.goal("cascade called with the stored coefficients", len(calls) == 1 and calls[0][1] is g._a_coeffs and calls[0][2] is g._b_coeffs)
    W.goal("output scaled by _scaling", bool(rnp.allclose(out, g._scaling)))
    W.goal("white input has unit two-sided density", abs(g._whitenoise.rms ** 2 - 1.0 * fs) <= 1e-12 * fs)
    W.goal("b0=1", bool(rnp.all(g._b_coeffs[:, 0] == 1.0)))


def obligations(tier):
    obs = [{"name": "white", "fn": "ob_white", "params": {}}]
    for N in range(2, 10):
        obs.append({"name": "fftnoise/N%d" % N, "fn": "ob_fftnoise", "params": {"N": N}, "weight": N})
    for N in ((4, 5, 8, 9) if tier == "quick" else (2, 3, 4, 5, 6, 7, 8, 9, 12)):
        obs.append({"name": "band_limited/N%d" % N, "fn": "ob_band", "params": {"N": N}, "fork": True, "max_paths": 64, "weight": N})
    if tier == "quick":
        # (the last two: bands lying wholly above / wholly below 1 Hz -- the level must not be tied to a fixed reference frequency)
        grid = [(a, 100.0, 0.01, 10.0) for a in (0.5, 1.0, 2.0)] + [(1.5, 2.0, 1e-3, 1.0), (2.0, 1000.0, 10.0, 200.0), (2.0, 10.0, 1e-2, 0.3)]
        per = 50
    else:
        grid = [(a, fs, fmin, fmax) for a in (0.01, 0.25, 0.5, 1.0, 1.5, 2.0) for (fs, fmin, fmax) in ((100.0, 0.01, 10.0), (2.0, 1e-3, 1.0))] + [(1.0, 1000.0, 0.2, 400.0), (2.0, 1000.0, 10.0, 200.0), (1.5, 1000.0, 5.0, 300.0), (2.0, 10.0, 1e-2, 0.3)]
        per = 100
    for (a, fs, fmin, fmax) in grid:
        d = config(a, fs, fmin, fmax)
        # the response is encoded as a rational function of c = cos(omega) with cell enclosures widened by 1e-12: that needs
        # 1 - cos(omega) >> 1e-12 at the lowest frequency checked (omega >= 1e-3, i.e. f >= 1.6e-4 fs); lower bands are outside
        assert 2 * math.pi * 2 * d["fmin_eff"] / fs >= 1e-3, "band too low for the cos-parametrisation"
        n = len(_cells(d, per))
        obs.append({"name": "shape/alpha%s_fs%s_%s-%s/wiring" % (a, fs, fmin, fmax), "fn": "ob_shape_wiring", "params": dict(alpha=a, fs=fs, fmin=fmin, fmax=fmax), "vacuity": False})
        step = 8
        for i0 in range(0, n, step):
            obs.append({"name": "shape/alpha%s_fs%s_%s-%s/cells%03d" % (a, fs, fmin, fmax, i0), "fn": "ob_shape", "params": dict(alpha=a, fs=fs, fmin=fmin, fmax=fmax, i0=i0, i1=i0 + step, per_decade=per),
                        "timeout": 20 if tier == "quick" else 120, "weight": d["nsec"]})
    return obs
