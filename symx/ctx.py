"""symx.ctx -- the state of the symbolic run in progress (one per process at a time).

side     definitional constraints of fresh symbols (sqrt, algebraic constants, ufun facts)
vcs      verification conditions raised while executing (divisor != 0, sqrt argument >= 0, ...)
         each stored as (kind, guard, condition): the VC is  guard -> condition
guards   stack of boolean terms under which the current code runs (np.divide(where=...), If-merging)
path     branch decisions of the fork engine
"""
import z3

_cur = None


class Run:
    def __init__(self):
        self.side = []
        self.vcs = []
        self.guards = []
        self.path = []          # list of z3 bool terms assumed on this path
        self.decisions = None   # fork engine: list of booleans to follow; None = forking disabled
        self.dpos = 0
        self.pending = None     # set by the fork engine
        self.n = 0
        self.ufuns = {}
        self.uapps = {}         # name -> list of (arg terms..., result term)
        self.algsyms = {}
        self.assumptions = []   # harness preconditions (z3 terms)
        self.feasible = None    # callback(list_of_terms) -> 'sat'/'unsat'/'unknown'
        self.nforks = 0
        self.where = None       # source text of the expression being evaluated (AST interpreter), for stable VC names
        self.log = []


def start():
    global _cur
    _cur = Run()
    return _cur


def cur():
    return _cur


def fresh(prefix, sort="real"):
    _cur.n += 1
    name = "%s!%d" % (prefix, _cur.n)
    return z3.Real(name) if sort == "real" else (z3.Int(name) if sort == "int" else z3.Bool(name))


def guard_term():
    g = _cur.guards + _cur.path
    if not g:
        return z3.BoolVal(True)
    return z3.And(*g) if len(g) > 1 else g[0]


class guarded:
    def __init__(self, g):
        self.g = g

    def __enter__(self):
        _cur.guards.append(self.g)

    def __exit__(self, *a):
        _cur.guards.pop()


def vc(kind, cond):
    if _cur is None:
        return
    s = z3.simplify(cond)
    if z3.is_true(s):
        return
    _cur.vcs.append((kind if not _cur.where else "%s@%s" % (kind, _cur.where), guard_term(), cond))


def vc_nonzero(b):
    if _cur is None:
        return
    if z3.is_int_value(b) or z3.is_rational_value(b):
        s = z3.simplify(b != 0)
        if z3.is_true(s):
            return
    vc("div", b != 0)


def sqrt(x):
    from .proxy import SR, toreal
    t = toreal(x.t)
    s = z3.simplify(t)
    if z3.is_rational_value(s):
        from fractions import Fraction
        import math
        fr = Fraction(s.numerator_as_long(), s.denominator_as_long())
        if fr >= 0:
            rn, rd = math.isqrt(fr.numerator), math.isqrt(fr.denominator)
            if rn * rn == fr.numerator and rd * rd == fr.denominator:
                return SR(z3.RealVal(str(Fraction(rn, rd))))
    key = ("sqrt", t.sexpr())
    if key in _cur.ufuns:
        return SR(_cur.ufuns[key])
    vc("sqrt", t >= 0)
    r = fresh("sqrt")
    # total definition: for a negative argument the value is unconstrained apart from r>=0
    _cur.side.append(r >= 0)
    _cur.side.append(z3.Implies(t >= 0, r * r == t))
    _cur.ufuns[key] = r
    _cur.uapps.setdefault("sqrt", []).append((t, r))
    return SR(r)


def ufun(name, x):
    """uninterpreted real function application (asin, log10, log, exp, atan2 ...);
    functional consistency comes from z3's Function; harnesses add the facts they rely on."""
    from .proxy import SR, toreal
    args = x if isinstance(x, tuple) else (x,)
    ts = [toreal(a.t if isinstance(a, SR) else __import__("symx.proxy", fromlist=["tz"]).tz(a)) for a in args]
    f = _cur.ufuns.get(("fn", name, len(ts)))
    if f is None:
        f = z3.Function(name, *([z3.RealSort()] * (len(ts) + 1)))
        _cur.ufuns[("fn", name, len(ts))] = f
    r = f(*ts)
    _cur.uapps.setdefault(name, []).append(tuple(ts) + (r,))
    return SR(r)


def upow(a, b):
    from .proxy import SR, tz
    return ufun("pow", (a if isinstance(a, SR) else SR(tz(a)), b if isinstance(b, SR) else SR(tz(b))))


def alg_symbol(k, d):
    """sigma_k as a constrained real (only reached when irrational parts do not cancel)"""
    if k not in _cur.algsyms:
        from .proxy import rv
        s = z3.Real("sigma!%s" % (k,))
        _cur.side += [s > 0, s * s == rv(d)]
        _cur.algsyms[k] = s
    return _cur.algsyms[k]


class NeedFork(Exception):
    pass


def decide(t):
    """truth value of a symbolic condition reached by `if` in executed code"""
    from .proxy import SymbolicBranch
    s = z3.simplify(t)
    if z3.is_true(s):
        return True
    if z3.is_false(s):
        return False
    r = _cur
    if r is not None and r.decisions is None and getattr(r, "feasible", None) is not None:
        # not in fork mode: a branch whose outcome is IMPLIED by the assumptions made so far (argument validation such as
        # `if fs <= 0: raise` under the precondition fs > 0) is simply taken
        base = r.assumptions + r.side + r.path + r.guards
        can_t = r.feasible(base + [t])
        can_f = r.feasible(base + [z3.Not(t)]) if can_t != "unsat" else "sat"
        if can_t == "unsat" and can_f != "unsat":
            return False
        if can_f == "unsat" and can_t != "unsat":
            return True
    if r is None or r.decisions is None:
        raise SymbolicBranch("branch on a symbolic condition outside fork mode: %s" % str(s)[:200])
    if r.dpos < len(r.decisions):
        d = r.decisions[r.dpos]
        r.dpos += 1
        r.path.append(t if d else z3.Not(t))
        return d
    # new fork point: ask which sides are feasible
    base = r.assumptions + r.side + r.path + r.guards
    can_t = r.feasible(base + [t])
    can_f = r.feasible(base + [z3.Not(t)])
    r.nforks += 1
    if can_t == "unknown" or can_f == "unknown":
        r.log.append("fork feasibility unknown at %s" % str(s)[:120])
    opts = [d for d, c in ((True, can_t), (False, can_f)) if c != "unsat"]
    if not opts:
        raise NeedFork("infeasible path")  # path condition itself unsat
    d = opts[0]
    if len(opts) == 2:
        r.pending.append(r.decisions[: r.dpos] + [opts[1]])
    r.decisions.append(d)
    r.dpos += 1
    r.path.append(t if d else z3.Not(t))
    return d


def concretize_int(t, limit=80):
    """fork mode: enumerate the feasible integer values of t (one path per value)"""
    from .proxy import SymbolicBranch
    s = z3.simplify(t)
    if z3.is_int_value(s):
        return s.as_long()
    r = _cur
    if r is None or r.decisions is None:
        raise SymbolicBranch("symbolic integer needed as a concrete value outside fork mode: %s" % str(s)[:160])
    from . import solve
    for _ in range(limit):
        # re-executions of a known path prefix ask the same question again (execution is deterministic given the decisions taken):
        # answered from a cache keyed by the decision prefix and the number of such questions asked so far on this path
        r.cseq = getattr(r, "cseq", 0) + 1
        key = (tuple(r.decisions[: r.dpos]), r.cseq)
        if key in _CVAL_CACHE:
            v = _CVAL_CACHE[key]
        else:
            v = solve.feasible_int_value(r.assumptions + r.side + r.path + r.guards, t)
            _CVAL_CACHE[key] = v
        if v is None:
            raise NeedFork("no feasible value")
        if decide(t == v):
            return v
    raise SymbolicBranch("more than %d feasible values for %s" % (limit, str(s)[:100]))


_CVAL_CACHE = {}


def inverse(b):
    key = ("inv", b.sexpr())
    if key not in _cur.ufuns:
        v = fresh("inv")
        _cur.side.append(z3.Implies(b != 0, v * b == 1))
        _cur.ufuns[key] = v
    return _cur.ufuns[key]
