"""symx.proxy -- symbolic values that obey the Python numeric protocol.

SR  real/integer term (z3 ArithRef)            SC  complex = pair of SR
SB  boolean term (fork-aware __bool__)         AR  Q-linear combination of formal algebraic
                                                   constants (sigma_k^2 = rational d_k)
Floats of the code under test are modelled as exact reals (stated in every evidence file).
"""
import operator, math
from fractions import Fraction
import numpy as rnp
import z3

from . import ctx


class Unsupported(Exception):
    """The executed code left the fragment the encoder understands (reported, never ignored)."""


class SymbolicBranch(Exception):
    pass


class ContractViolation(AssertionError):
    """raised by a harness stand-in when the code under test breaks the stand-in's contract (e.g. hands the spectral estimator a record
    that is not one of the caller's channels): a finding candidate, unlike any other exception raised inside harness code"""


def rv(x):
    """exact z3 numeral of a Python/numpy number"""
    if isinstance(x, (bool, rnp.bool_)):
        return z3.IntVal(int(x))
    if isinstance(x, (int, rnp.integer)):
        return z3.IntVal(int(x))
    if isinstance(x, Fraction):
        if x.denominator == 1:
            return z3.RealVal(x.numerator)
        return z3.RealVal(str(x))
    if isinstance(x, (float, rnp.floating)):
        if math.isnan(float(x)):
            # a literal NaN written by the code: modelled as one arbitrary (unconstrained) value -- enough to see that something
            # was overwritten; counterexamples are replayed with a real NaN
            return z3.Real("nan!value")       # ONE symbol: NaN written twice is the same (unknown) value, as equal_nan comparisons treat it
        if not math.isfinite(float(x)):
            raise Unsupported("non-finite float constant %r" % (x,))
        f = Fraction(float(x))
        if f.denominator > (1 << 24):
            # a double that is the correctly rounded quotient of two small integers (nb / n computed by CPython on ints before the
            # proxies see it, 1/3, 0.1 ...) stands for that quotient: the claims are over the reals, constants mean their exact values
            g = f.limit_denominator(4096)
            if g.numerator / g.denominator == float(x):
                f = g
        return z3.RealVal(str(f)) if f.denominator != 1 else z3.RealVal(f.numerator)
    raise TypeError(type(x))


def is_num(o):
    return isinstance(o, (int, float, Fraction, rnp.integer, rnp.floating)) and not isinstance(o, (bool, rnp.bool_))


def tz(o):
    if isinstance(o, SR):
        return o.t
    if isinstance(o, SB):
        return z3.If(o.t, z3.IntVal(1), z3.IntVal(0))
    if isinstance(o, (bool, rnp.bool_)):
        return z3.IntVal(int(o))
    if is_num(o):
        return rv(o)
    if isinstance(o, z3.ArithRef):
        return o
    raise TypeError(type(o))


def toreal(t):
    return z3.ToReal(t) if t.sort() == z3.IntSort() else t


def _isint(t):
    return t.sort() == z3.IntSort()


def int_view(t, depth=0):
    """the Int-sorted term equal to real term t when t is integral by construction (ToReal(x), numerals, If of such), else None"""
    if _isint(t):
        return t
    if depth > 12:
        return None
    k = t.decl().kind()
    if k == z3.Z3_OP_TO_REAL:
        return t.arg(0)
    if z3.is_rational_value(t):
        if t.denominator_as_long() == 1:
            return z3.IntVal(t.numerator_as_long())
        return None
    if k == z3.Z3_OP_ITE:
        a, b = int_view(t.arg(1), depth + 1), int_view(t.arg(2), depth + 1)
        if a is not None and b is not None:
            return z3.If(t.arg(0), a, b)
    return None


# ----------------------------------------------------------------------------- booleans
class SB:
    __slots__ = ("t",)
    __hash__ = None

    def __init__(self, t):
        self.t = t if isinstance(t, z3.BoolRef) else z3.BoolVal(bool(t))

    @staticmethod
    def lift(o):
        if isinstance(o, SB):
            return o
        if isinstance(o, (bool, rnp.bool_)):
            return SB(z3.BoolVal(bool(o)))
        if isinstance(o, z3.BoolRef):
            return SB(o)
        raise TypeError(type(o))

    def __and__(self, o):
        if isinstance(o, rnp.ndarray):
            return NotImplemented
        return SB(z3.And(self.t, SB.lift(o).t))

    __rand__ = __and__

    def __or__(self, o):
        if isinstance(o, rnp.ndarray):
            return NotImplemented
        return SB(z3.Or(self.t, SB.lift(o).t))

    __ror__ = __or__

    def __invert__(self):
        return SB(z3.Not(self.t))

    def __eq__(self, o):
        return SB(self.t == SB.lift(o).t)

    def __ne__(self, o):
        return SB(self.t != SB.lift(o).t)

    def __bool__(self):
        return ctx.decide(self.t)

    # a boolean used as a number (counting the true elements of a mask): 1 / 0
    def _num(self):
        return SR(z3.If(self.t, z3.IntVal(1), z3.IntVal(0)))

    def __add__(self, o):
        if isinstance(o, rnp.ndarray):
            return NotImplemented
        return self._num() + (o._num() if isinstance(o, SB) else o)

    __radd__ = __add__

    def __repr__(self):
        return "SB(%s)" % self.t


# ----------------------------------------------------------------------------- reals / ints
class SR:
    __slots__ = ("t",)

    def __hash__(self):
        # numbers are hashable; a constant hash makes dict/set lookups fall back on ==, which is decided symbolically
        # (forking in fork mode, SymbolicBranch otherwise) -- so memo tables keyed by numbers behave as they do on floats
        return 0x5EED

    def __init__(self, t):
        self.t = t

    # -- helpers
    def _bin(self, o, f, rev=False):
        if isinstance(o, rnp.ndarray):
            return NotImplemented
        if isinstance(o, (complex, rnp.complexfloating)):
            a, b = SC.lift(self), SC.lift(o)
            opn = getattr(f, "__name__", "")
            if rev:
                a, b = b, a
            if opn == "add": return a + b
            if opn == "sub": return a - b
            if opn == "mul": return a * b
            if opn == "_div": return a / b
            return NotImplemented
        if isinstance(o, (SC, AR, Angle)):
            return NotImplemented
        try:
            b = tz(o)
        except TypeError:
            return NotImplemented
        a = self.t
        return SR(f(b, a) if rev else f(a, b))

    def __add__(self, o): return self._bin(o, operator.add)
    def __radd__(self, o): return self._bin(o, operator.add, True)
    def __sub__(self, o): return self._bin(o, operator.sub)
    def __rsub__(self, o): return self._bin(o, operator.sub, True)
    def __mul__(self, o): return self._bin(o, operator.mul)
    def __rmul__(self, o): return self._bin(o, operator.mul, True)

    @staticmethod
    def _div(a, b):
        ctx.vc_nonzero(b)
        r = ctx.cur()
        if r is not None and getattr(r, "poly_div", False) and not (z3.is_rational_value(b) or z3.is_int_value(b)):
            # division by a symbolic term as multiplication by ONE shared inverse symbol per distinct divisor
            return toreal(a) * ctx.inverse(toreal(b))
        return toreal(a) / toreal(b)

    def __truediv__(self, o): return self._bin(o, SR._div)
    def __rtruediv__(self, o): return self._bin(o, SR._div, True)

    @staticmethod
    def _floordiv(a, b):
        ctx.vc_nonzero(b)
        q = z3.ToInt(toreal(a) / toreal(b))
        return q if (_isint(a) and _isint(b)) else z3.ToReal(q)

    def __floordiv__(self, o): return self._bin(o, SR._floordiv)
    def __rfloordiv__(self, o): return self._bin(o, SR._floordiv, True)

    @staticmethod
    def _mod(a, b):
        ctx.vc_nonzero(b)
        q = z3.ToInt(toreal(a) / toreal(b))
        if _isint(a) and _isint(b):
            return a - b * q
        return toreal(a) - toreal(b) * z3.ToReal(q)

    def __mod__(self, o): return self._bin(o, SR._mod)
    def __rmod__(self, o): return self._bin(o, SR._mod, True)

    def __neg__(self): return SR(-self.t)
    def __pos__(self): return self

    def __abs__(self):
        return SR(z3.If(self.t >= 0, self.t, -self.t))

    def __pow__(self, o):
        if isinstance(o, SR):
            s = z3.simplify(o.t)
            if z3.is_int_value(s):
                o = s.as_long()
            elif z3.is_rational_value(s):
                o = Fraction(s.numerator_as_long(), s.denominator_as_long())
            else:
                return ctx.upow(self, o)
        if isinstance(o, (float, rnp.floating)) and float(o) == int(o):
            o = int(o)
        if isinstance(o, (int, rnp.integer)):
            o = int(o)
            if o == 0:
                return SR(z3.RealVal(1))
            base = self
            res = None
            for _ in range(abs(o)):
                res = base if res is None else res * base
            return res if o > 0 else 1 / res
        if isinstance(o, (float, Fraction)) and Fraction(o) == Fraction(1, 2):
            return self.sqrt()
        return ctx.upow(self, o)

    def __rpow__(self, o):
        return ctx.upow(o, self)

    # comparisons
    def _cmp(self, o, f):
        if isinstance(o, rnp.ndarray):
            return NotImplemented
        if isinstance(o, (float, rnp.floating)) and math.isinf(float(o)):
            # every real is finite: comparison with +-inf is a constant
            return SB(z3.BoolVal(bool(f(0.0, float(o)))))
        try:
            return SB(f(self.t, tz(o)))
        except TypeError:
            return NotImplemented

    def __lt__(self, o): return self._cmp(o, operator.lt)
    def __le__(self, o): return self._cmp(o, operator.le)
    def __gt__(self, o): return self._cmp(o, operator.gt)
    def __ge__(self, o): return self._cmp(o, operator.ge)
    def __eq__(self, o): return self._cmp(o, operator.eq)
    def __ne__(self, o): return self._cmp(o, operator.ne)

    # conversions
    def __float__(self):
        raise SymbolicBranch("float() of a symbolic value outside a sym-aware clone")

    def __index__(self):
        s = z3.simplify(self.t)
        if z3.is_int_value(s):
            return s.as_long()
        iv = int_view(self.t)
        if iv is None:
            raise SymbolicBranch("non-integer symbolic value used as an index / range bound: %s" % str(s)[:160])
        return ctx.concretize_int(iv)

    def __int__(self):
        return self.__index__()

    def __bool__(self):
        return bool(self != 0)

    def trunc(self):
        iv = int_view(self.t)
        if iv is not None:
            return SR(iv)
        t = self.t
        return SR(z3.If(t >= 0, z3.ToInt(t), -z3.ToInt(-t)))

    def floor(self):
        iv = int_view(self.t)
        return SR(iv) if iv is not None else SR(z3.ToInt(self.t))

    def ceil(self):
        iv = int_view(self.t)
        return SR(iv) if iv is not None else SR(-z3.ToInt(-self.t))

    def round_half_even(self):
        iv = int_view(self.t)
        if iv is not None:
            return SR(iv)
        h = self.t + z3.RealVal("1/2")
        f = z3.ToInt(h)
        tie = z3.ToReal(f) == h
        return SR(z3.If(z3.And(tie, f % 2 == 1), f - 1, f))

    __round__ = lambda self, nd=None: self.round_half_even()
    __trunc__ = lambda self: self.trunc()
    __floor__ = lambda self: self.floor()
    __ceil__ = lambda self: self.ceil()

    # numpy ufunc-by-method protocol on object arrays
    def sqrt(self):
        return ctx.sqrt(self)

    def conjugate(self): return self
    conj = conjugate
    real = property(lambda self: self)
    imag = property(lambda self: SR(z3.RealVal(0)))

    def arcsin(self): return ctx.ufun("asin", self)
    def log10(self): return ctx.ufun("log10", self)
    def log(self): return ctx.ufun("log", self)
    def exp(self): return ctx.ufun("exp", self)
    def rint(self): return self.round_half_even()

    def __repr__(self):
        s = str(self.t)
        return "SR(%s)" % (s if len(s) < 80 else s[:77] + "...")

    def __format__(self, spec):
        return "<sym>"      # only reached from log / error message formatting


# ----------------------------------------------------------------------------- complex
class SC:
    __slots__ = ("re", "im")
    __hash__ = None

    def __init__(self, re, im):
        self.re = re if isinstance(re, (SR, AR)) else SR(tz(re))
        self.im = im if isinstance(im, (SR, AR)) else SR(tz(im))

    @staticmethod
    def lift(o):
        if isinstance(o, SC):
            return o
        if isinstance(o, (SR, AR)):
            return SC(o, SR(z3.RealVal(0)))
        if isinstance(o, (complex, rnp.complexfloating)):
            return SC(SR(rv(float(o.real))), SR(rv(float(o.imag))))
        if is_num(o):
            return SC(SR(rv(o)), SR(z3.RealVal(0)))
        raise TypeError(type(o))

    def _bin(self, o, f, rev=False):
        if isinstance(o, rnp.ndarray):
            return NotImplemented
        try:
            o = SC.lift(o)
        except TypeError:
            return NotImplemented
        return f(o, self) if rev else f(self, o)

    @staticmethod
    def _mul(a, b):
        return SC(a.re * b.re - a.im * b.im, a.re * b.im + a.im * b.re)

    @staticmethod
    def _divc(a, b):
        d = b.re * b.re + b.im * b.im
        n = SC._mul(a, b.conjugate())
        return SC(n.re / d, n.im / d)

    def __add__(self, o): return self._bin(o, lambda a, b: SC(a.re + b.re, a.im + b.im))
    __radd__ = __add__
    def __sub__(self, o): return self._bin(o, lambda a, b: SC(a.re - b.re, a.im - b.im))
    def __rsub__(self, o): return self._bin(o, lambda a, b: SC(a.re - b.re, a.im - b.im), True)
    def __mul__(self, o): return self._bin(o, SC._mul)
    __rmul__ = __mul__

    def __truediv__(self, o):
        if isinstance(o, rnp.ndarray):
            return NotImplemented
        if isinstance(o, (SR,)) or is_num(o):
            return SC(self.re / o, self.im / o)
        return self._bin(o, SC._divc)

    def __rtruediv__(self, o): return self._bin(o, SC._divc, True)
    def __neg__(self): return SC(-self.re, -self.im)
    def __pos__(self): return self

    def __pow__(self, o):
        if isinstance(o, (int, rnp.integer)) and o >= 0:
            res = SC(SR(z3.RealVal(1)), SR(z3.RealVal(0)))
            for _ in range(int(o)):
                res = res * self
            return res
        raise Unsupported("complex ** %r" % (o,))

    def conjugate(self): return SC(self.re, -self.im)
    conj = conjugate
    real = property(lambda self: self.re)
    imag = property(lambda self: self.im)

    def __abs__(self):
        return (self.re * self.re + self.im * self.im).sqrt()

    def __eq__(self, o):
        if isinstance(o, rnp.ndarray):
            return NotImplemented
        o = SC.lift(o)
        return SB(z3.And((self.re == o.re).t, (self.im == o.im).t))

    def __ne__(self, o):
        if isinstance(o, rnp.ndarray):
            return NotImplemented
        o = SC.lift(o)
        return SB(z3.Or((self.re != o.re).t, (self.im != o.im).t))

    def sqrt(self):
        raise Unsupported("complex sqrt")

    def __repr__(self):
        return "SC(%r,%r)" % (self.re, self.im)

    def __format__(self, spec):
        return "<sym>"


# ----------------------------------------------------------------------------- angles
class Angle:
    """k*omega (k integer) or i*k*omega: the argument handed to cos/sin/exp by the kernels."""
    __slots__ = ("om", "k", "imag")
    __hash__ = None

    def __init__(self, om, k=1, imag=False):
        self.om, self.k, self.imag = om, k, imag

    def __mul__(self, o):
        if isinstance(o, rnp.ndarray):
            return NotImplemented
        if isinstance(o, (complex, rnp.complexfloating)):
            if o.real != 0 or self.imag:
                raise Unsupported("angle * %r" % (o,))
            return Angle(self.om, self.k * _asint(o.imag), True)
        if is_num(o):
            return Angle(self.om, self.k * _asint(o), self.imag)
        return NotImplemented

    __rmul__ = __mul__

    def __neg__(self):
        return Angle(self.om, -self.k, self.imag)

    def cis(self):
        """exp(i*k*omega) as SC"""
        c, s = self.om.c, self.om.s
        base = SC(c, s) if self.k >= 0 else SC(c, -s)
        return base ** abs(self.k)


def _asint(v):
    if float(v) != int(v):
        raise Unsupported("non-integer multiple of the analysis angle: %r" % (v,))
    return int(v)


class Omega(Angle):
    """the designated symbolic angle: cos=c, sin=s with c^2+s^2=1 (constraint added by the world)"""
    __slots__ = ("c", "s")

    def __init__(self, c, s):
        self.c, self.s = c, s
        Angle.__init__(self, self, 1, False)


# ----------------------------------------------------------------------------- algebraic
class AR:
    """sum over monomials (sorted tuples of ids of formal constants sigma_k, sigma_k^2 = ALG[k])
    of z3 real terms.  Keeps the irrational normalisation constants of QR out of the solver."""
    __slots__ = ("terms",)
    __hash__ = None
    ALG = {}

    def __init__(self, terms):
        self.terms = terms

    @staticmethod
    def lift(o):
        if isinstance(o, AR):
            return o
        if isinstance(o, SR):
            return AR({(): toreal(o.t)})
        if is_num(o):
            return AR({(): toreal(rv(o))})
        return None

    def _lin(self, o, sign):
        if isinstance(o, rnp.ndarray):
            return NotImplemented
        if isinstance(o, (complex, rnp.complexfloating, SC)):
            # real algebraic quantity +- complex number: a complex value with algebraic real part
            c = SC.lift(o)
            return SC(self + c.re, c.im) if sign == 1 else SC(self - c.re, SR(z3.RealVal(0)) - c.im)
        o = AR.lift(o)
        if o is None:
            return NotImplemented
        t = dict(self.terms)
        for k, v in o.terms.items():
            t[k] = (t[k] + v if sign == 1 else t[k] - v) if k in t else (v if sign == 1 else -v)
        return AR(t)

    def __add__(self, o): return self._lin(o, 1)
    __radd__ = __add__
    def __sub__(self, o): return self._lin(o, -1)

    def __rsub__(self, o):
        r = (-self)._lin(o, 1)
        return r

    def __neg__(self): return AR({k: -v for k, v in self.terms.items()})

    def __mul__(self, o):
        if isinstance(o, rnp.ndarray):
            return NotImplemented
        if isinstance(o, (complex, rnp.complexfloating)):
            c = SC.lift(o)
            return SC(self * c.re, self * c.im)
        o = AR.lift(o)
        if o is None:
            return NotImplemented
        t = {}
        for k1, v1 in self.terms.items():
            for k2, v2 in o.terms.items():
                dup = set(k1) & set(k2)
                k = tuple(sorted(set(k1) ^ set(k2)))
                c = v1 * v2
                for d in dup:
                    c = c * rv(AR.ALG[d])
                t[k] = t[k] + c if k in t else c
        return AR(t)

    __rmul__ = __mul__

    def __truediv__(self, o):
        if isinstance(o, rnp.ndarray):
            return NotImplemented
        o = AR.lift(o)
        if o is None or list(o.terms) != [()]:
            raise Unsupported("division by an algebraic quantity")
        ctx.vc_nonzero(o.terms[()])
        return AR({k: v / o.terms[()] for k, v in self.terms.items()})

    def __rtruediv__(self, o):
        raise Unsupported("division by an algebraic quantity")

    def __pow__(self, o):
        if isinstance(o, (int, rnp.integer)) and o >= 1:
            r = self
            for _ in range(int(o) - 1):
                r = r * self
            return r
        if isinstance(o, (float, rnp.floating)) and float(o) == int(o) and o >= 1:
            return self ** int(o)
        raise Unsupported("algebraic ** %r" % (o,))

    def rational(self):
        """SR of the value; irrational monomials must cancel identically, otherwise the constants
        enter the solver as constrained reals (sound, slower)."""
        tot = self.terms.get((), z3.RealVal(0))
        for k, v in self.terms.items():
            if k == ():
                continue
            if z3.is_true(z3.simplify(v == 0)):
                continue
            m = v
            for d in k:
                m = m * ctx.alg_symbol(d, AR.ALG[d])
            tot = tot + m
        return SR(tot)

    t = property(lambda self: self.rational().t)
    conjugate = lambda self: self
    real = property(lambda self: self)
    imag = property(lambda self: SR(z3.RealVal(0)))


def plain(v):
    """collapse AR to SR (used when leaving the kernel layer)"""
    if isinstance(v, AR):
        return v.rational()
    if isinstance(v, SC):
        return SC(plain(v.re), plain(v.im))
    return v


def ite(c, a, b):
    """element-level if-then-else on proxies / numbers (c: SB, z3 bool or bool)"""
    if isinstance(c, (bool, rnp.bool_)):
        return a if c else b
    ct = c.t if isinstance(c, SB) else c
    s = z3.simplify(ct)
    if z3.is_true(s):
        return a
    if z3.is_false(s):
        return b
    if isinstance(a, SB) or isinstance(b, SB) or isinstance(a, (bool, rnp.bool_)) and isinstance(b, (bool, rnp.bool_)):
        return SB(z3.If(ct, SB.lift(a).t, SB.lift(b).t))
    if isinstance(a, (SC, complex, rnp.complexfloating)) or isinstance(b, (SC, complex, rnp.complexfloating)):
        a, b = SC.lift(a), SC.lift(b)
        return SC(ite(ct, a.re, b.re), ite(ct, a.im, b.im))
    a, b = plain(a), plain(b)
    ta, tb = tz(a), tz(b)
    if ta.sort() != tb.sort():
        ta, tb = toreal(ta), toreal(tb)
    return SR(z3.If(ct, ta, tb))


def is_sym(o):
    return isinstance(o, (SR, SC, SB, AR, Angle))
