"""symx.solve -- discharge one query: in-process z3 first, then a portfolio of external solvers.

verdicts: 'unsat' | 'sat' (+ model as {name: Fraction}) | 'unknown'
Any '(error' from an external solver, or two different definite answers, is a harness error.
"""
import hashlib, os, re, subprocess, tempfile, time, shutil
from fractions import Fraction
import z3

OUT = os.path.join(os.path.dirname(os.path.dirname(os.path.abspath(__file__))), "out")
STATS = {"queries": 0, "solver_s": 0.0, "by_engine": {}, "hashes": set(), "trivial": 0, "nontrivial_hashes": set(),
         "unknown": 0}


FIRST_STAGE_S = 4.0   # in-process z3 (default strategy) gets this long before the external portfolio is raced


class HarnessError(Exception):
    pass


def _frac(v):
    if z3.is_int_value(v):
        return Fraction(v.as_long())
    if z3.is_rational_value(v):
        return Fraction(v.numerator_as_long(), v.denominator_as_long())
    if z3.is_algebraic_value(v):
        a = v.approx(40)
        return Fraction(a.numerator_as_long(), a.denominator_as_long())
    if z3.is_true(v):
        return Fraction(1)
    if z3.is_false(v):
        return Fraction(0)
    return None


def model_dict(m, consts):
    out = {}
    assigned = {d.name() for d in m.decls()}
    for c in consts:
        if str(c) not in assigned:
            continue          # left unconstrained by the solver: the replay picks a generic value instead of 0
        v = m.eval(c, model_completion=True)
        f = _frac(v)
        if f is not None:
            out[str(c)] = f
    return out


def free_consts(terms):
    seen, out, stack = set(), {}, list(terms)
    while stack:
        t = stack.pop()
        i = t.get_id()
        if i in seen:
            continue
        seen.add(i)
        if z3.is_const(t) and t.decl().kind() == z3.Z3_OP_UNINTERPRETED:
            out[str(t)] = t
        else:
            stack.extend(t.children())
    return out


def to_smt2(terms, logic=None):
    s = z3.Solver()
    s.add(*terms)
    txt = s.to_smt2()
    return txt


def _hash(terms):
    h = hashlib.sha256()
    for t in terms:
        h.update(t.sexpr().encode())
    return h.hexdigest()[:16]


def _forked_check(terms, t1, want_model, inputs, consts):
    import pickle, select, signal
    rfd, wfd = os.pipe()
    pid = os.fork()
    if pid == 0:
        try:
            os.close(rfd)
            so = z3.Solver()
            so.set("timeout", int(t1 * 1000))
            so.add(*terms)
            r = str(so.check())
            mdl = None
            if r == "sat" and want_model:
                src = inputs if inputs else consts
                mdl = model_dict(so.model(), list(src.values()) if isinstance(src, dict) else list(src))
            os.write(wfd, pickle.dumps((r, mdl)))
        except BaseException as e:
            try:
                os.write(wfd, pickle.dumps(("error:%s" % e, None)))
            except Exception:
                pass
        finally:
            os._exit(0)
    os.close(wfd)
    data = b""
    deadline = time.time() + t1 + 1.5
    try:
        while True:
            left = deadline - time.time()
            if left <= 0:
                break
            rl, _, _ = select.select([rfd], [], [], left)
            if not rl:
                break
            chunk = os.read(rfd, 1 << 20)
            if not chunk:
                break
            data += chunk
    finally:
        os.close(rfd)
        try:
            os.kill(pid, signal.SIGKILL)
        except OSError:
            pass
        try:
            os.waitpid(pid, 0)
        except OSError:
            pass
    if not data:
        return "unknown", None
    try:
        r, mdl = pickle.loads(data)
    except Exception:
        return "unknown", None
    if isinstance(r, str) and r.startswith("error:"):
        raise HarnessError("z3 child failed: %s" % r)
    return r, mdl


def check(terms, timeout=20.0, want_model=True, inputs=None, portfolio=True, note=None):
    """returns dict(verdict, model, engine, time, hash, size)"""
    t0 = time.time()
    terms = [t for t in terms if not z3.is_true(t)]
    hsh = _hash(terms)
    consts = free_consts(terms)
    STATS["queries"] += 1
    STATS["hashes"].add(hsh)
    if consts:
        STATS["nontrivial_hashes"].add(hsh)
    res = {"verdict": "unknown", "model": None, "engine": None, "hash": hsh,
           "size": sum(len(t.sexpr()) for t in terms), "nconsts": len(consts)}
    # 1. z3 5.1 through the Python API (default strategy), run in a forked child so that the time limit is hard:
    #    z3's own timeout is cooperative and was observed to overshoot by minutes inside nlsat
    t1 = timeout if not portfolio else min(timeout, FIRST_STAGE_S)
    r, mdl = _forked_check(terms, t1, want_model, inputs, consts)
    if r in ("sat", "unsat"):
        res["verdict"], res["engine"] = r, "z3-%s(api)" % z3.get_version_string()
        if r == "sat" and want_model:
            res["model"] = mdl
    elif portfolio:
        ext = external(terms, timeout, list(consts.values()) if want_model else [])
        res.update(ext)
    dt = time.time() - t0
    res["time"] = round(dt, 3)
    STATS["solver_s"] += dt
    STATS["by_engine"][res["engine"] or "none"] = STATS["by_engine"].get(res["engine"] or "none", 0) + 1
    if res["verdict"] == "unknown":
        STATS["unknown"] += 1
    return res


_SEXP = re.compile(r"\(|\)|[^\s()]+")


def _parse_sexps(txt):
    toks = _SEXP.findall(txt)
    pos = 0

    def rd():
        nonlocal pos
        t = toks[pos]
        pos += 1
        if t == "(":
            l = []
            while toks[pos] != ")":
                l.append(rd())
            pos += 1
            return l
        return t
    out = []
    while pos < len(toks):
        out.append(rd())
    return out


def _val(e):
    if isinstance(e, str):
        if e in ("true", "false"):
            return Fraction(1 if e == "true" else 0)
        try:
            return Fraction(e)
        except ValueError:
            return None
    if e[0] == "-" and len(e) == 2:
        v = _val(e[1])
        return None if v is None else -v
    if e[0] == "/" and len(e) == 3:
        a, b = _val(e[1]), _val(e[2])
        return None if a is None or b is None or b == 0 else a / b
    if e[0] == "to_real":
        return _val(e[1])
    return None


def external(terms, timeout, consts):
    """race /usr/bin/z3 (4.8.12), z3-new with nlsat tactic, cvc5; first definite answer wins"""
    os.makedirs(os.path.join(OUT, "smt"), exist_ok=True)
    txt = to_smt2(terms)
    gv = ""
    names = [str(c) for c in consts if "!" not in str(c) or True]
    if names:
        gv = "(get-value (%s))\n" % " ".join("|%s|" % n if not re.match(r"^[A-Za-z_][A-Za-z0-9_]*$", n) else n for n in names)
    body = txt.replace("(check-sat)", "") + "(check-sat)\n"
    fd, path = tempfile.mkstemp(suffix=".smt2", dir=os.path.join(OUT, "smt"))
    os.write(fd, (body + gv).encode())
    os.close(fd)
    t = max(2, int(timeout))
    cmds = []
    if os.path.exists("/usr/bin/z3"):
        cmds.append(("z3-4.8.12", ["/usr/bin/z3", "-T:%d" % t, path]))
    if shutil.which("z3-new"):
        cmds.append(("z3-new", ["z3-new", "-T:%d" % t, "tactic.default_tactic=qfnra-nlsat", path]))
    if shutil.which("cvc5"):
        cmds.append(("cvc5-1.0", ["cvc5", "--tlimit=%d" % (t * 1000), "--produce-models", path]))
    procs = [(n, subprocess.Popen(c, stdout=subprocess.PIPE, stderr=subprocess.STDOUT, text=True)) for n, c in cmds]
    verdicts = {}
    deadline = time.time() + t + 5
    pending = dict(procs)
    outs = {}
    while pending and time.time() < deadline:
        for n, p in list(pending.items()):
            if p.poll() is not None:
                o = p.stdout.read()
                outs[n] = o
                del pending[n]
                first = o.strip().split("\n")[0].strip() if o.strip() else ""
                if "(error" in o and first not in ("sat", "unsat"):
                    verdicts[n] = "error"
                elif first in ("sat", "unsat"):
                    # an '(error' after a definite verdict concerns get-value on unsat: ignore that case only
                    if "(error" in o and first == "sat":
                        verdicts[n] = "error"
                    else:
                        verdicts[n] = first
                else:
                    verdicts[n] = "unknown"
        if any(v in ("sat", "unsat") for v in verdicts.values()):
            break
        time.sleep(0.02)
    for n, p in pending.items():
        p.kill()
    try:
        os.unlink(path)
    except OSError:
        pass
    definite = {n: v for n, v in verdicts.items() if v in ("sat", "unsat")}
    if len(set(definite.values())) > 1:
        raise HarnessError("solvers disagree: %r" % definite)
    if not definite:
        return {"verdict": "unknown", "engine": "portfolio(%s)" % ",".join(n for n, _ in cmds)}
    n, v = next(iter(definite.items()))
    model = None
    if v == "sat" and names:
        model = {}
        try:
            sx = _parse_sexps(outs[n].split("\n", 1)[1])
            for grp in sx:
                for pair in grp:
                    if isinstance(pair, list) and len(pair) == 2:
                        val = _val(pair[1])
                        if val is not None:
                            model[pair[0].strip("|")] = val
        except Exception:
            model = None
    return {"verdict": v, "engine": n, "model": model}


INPROC = {"on": False}      # whole-run explorations make thousands of small feasibility queries: tried in-process first (0.5 s), forked only if undecided


def quick_feasible(terms, timeout=3.0):
    STATS["queries"] += 1
    t0 = time.time()
    if INPROC["on"]:
        sv = z3.Solver()
        sv.set("timeout", 500)
        sv.add(*terms)
        try:
            rr = str(sv.check())
        except z3.Z3Exception:
            rr = "unknown"
        if rr in ("sat", "unsat"):
            STATS["solver_s"] += time.time() - t0
            return rr
    r, _ = _forked_check(list(terms), timeout, False, None, {})
    STATS["solver_s"] += time.time() - t0
    return r


def feasible_int_value(terms, t, timeout=5.0):
    """an integer value the term t can take under `terms` (None when infeasible/unknown)"""
    c = z3.Int("cval!probe")
    STATS["queries"] += 1
    t0 = time.time()
    if INPROC["on"]:
        sv = z3.Solver()
        sv.set("timeout", 500)
        sv.add(*terms)
        sv.add(c == (t if t.sort() == z3.IntSort() else z3.ToInt(t)))
        try:
            rr = str(sv.check())
        except z3.Z3Exception:
            rr = "unknown"
        if rr == "unsat":
            STATS["solver_s"] += time.time() - t0
            return None
        if rr == "sat":
            v = sv.model().eval(c, model_completion=True)
            STATS["solver_s"] += time.time() - t0
            return v.as_long()
    r, mdl = _forked_check(list(terms) + [c == (t if t.sort() == z3.IntSort() else z3.ToInt(t))], timeout, True, {"cval!probe": c}, {})
    STATS["solver_s"] += time.time() - t0
    if r != "sat" or not mdl or "cval!probe" not in mdl:
        return None
    return int(mdl["cval!probe"])
