"""symx.astx -- a small Python-AST interpreter with if-then-else state merging.

Used for branchy scalar code (scheduler loop bodies, segmentation arithmetic) where forking every
`if` would explode.  Expressions are evaluated by applying the real Python operators to proxies
(so arithmetic semantics are shared with the DYN engine); `if`/`elif`/`else`, conditional
expressions and short-circuit `and`/`or` on a symbolic condition become If-terms per variable;
loops over a symbolic count are unrolled to a bound with an unwinding assertion.
The source is taken with inspect.getsource from /repo on every run.
"""
import ast, inspect, operator, textwrap
import numpy as rnp
import z3

from . import ctx
from .proxy import SR, SC, SB, AR, ite, is_sym, Unsupported, SymbolicBranch, tz, toreal


class Undefined:
    def __repr__(self):
        return "<undefined>"


UNDEF = Undefined()


class GList(list):
    """list whose append under a symbolic guard records (guard, value)"""

    def append(self, v):
        r = ctx.cur()
        if r is not None and r.guards:
            g = z3.And(*r.guards) if len(r.guards) > 1 else r.guards[0]
            list.append(self, Guarded(g, v))
        else:
            list.append(self, v)


class Guarded:
    """a value that exists only under guard g (element appended by a guarded loop iteration); arithmetic keeps the guard"""
    __hash__ = None

    def __init__(self, g, v):
        self.g, self.v = g, v

    def _op(self, o, f, rev=False):
        if isinstance(o, rnp.ndarray):
            return NotImplemented
        g, ov = (z3.And(self.g, o.g), o.v) if isinstance(o, Guarded) else (self.g, o)
        return Guarded(g, f(ov, self.v) if rev else f(self.v, ov))

    def __add__(self, o): return self._op(o, operator.add)
    def __radd__(self, o): return self._op(o, operator.add, True)
    def __sub__(self, o): return self._op(o, operator.sub)
    def __rsub__(self, o): return self._op(o, operator.sub, True)
    def __mul__(self, o): return self._op(o, operator.mul)
    def __rmul__(self, o): return self._op(o, operator.mul, True)
    def __truediv__(self, o): return self._op(o, operator.truediv)
    def __rtruediv__(self, o): return self._op(o, operator.truediv, True)

    def __repr__(self):
        return "Guarded(%s, %r)" % (self.g, self.v)


class _Return(Exception):
    def __init__(self, v):
        self.v = v


class _Break(Exception):
    pass


class _Continue(Exception):
    pass


def get_function_ast(f):
    f = getattr(f, "py_func", f)
    src = textwrap.dedent(inspect.getsource(f))
    return ast.parse(src).body[0]


def _isconc_bool(v):
    return isinstance(v, (bool, rnp.bool_)) or not isinstance(v, (SB,))


BIN = {ast.Add: operator.add, ast.Sub: operator.sub, ast.Mult: operator.mul, ast.Div: operator.truediv, ast.Mod: operator.mod,
       ast.Pow: operator.pow, ast.FloorDiv: operator.floordiv, ast.BitAnd: operator.and_, ast.BitOr: operator.or_, ast.MatMult: operator.matmul}
CMP = {ast.Lt: operator.lt, ast.LtE: operator.le, ast.Gt: operator.gt, ast.GtE: operator.ge, ast.Eq: operator.eq, ast.NotEq: operator.ne,
       ast.Is: operator.is_, ast.IsNot: operator.is_not}


class Interp:
    def __init__(self, glob, loop_bound=16, exact_div=False):
        self.glob = glob
        self.fork_ifs = False        # True: a symbolic `if` forks the run (fork mode) instead of merging both branches
        self.exact_div = exact_div   # int/int division of concrete operands is kept as an exact Fraction (not a rounded double)
        self.loop_bound = loop_bound
        self.merge_depth = 0
        self.unwind = []       # unwinding assertions (z3 terms that must hold)
        self.trace = []        # (name, value) of every assignment to a plain name, in execution order

    # ------------------------------------------------------------------ expressions
    def ev(self, n, env):
        return getattr(self, "e_" + type(n).__name__)(n, env)

    def e_Constant(self, n, env): return n.value
    def e_List(self, n, env): return GList(self.ev(e, env) for e in n.elts)
    def e_Tuple(self, n, env): return tuple(self.ev(e, env) for e in n.elts)
    def e_Dict(self, n, env): return {self.ev(k, env): self.ev(v, env) for k, v in zip(n.keys, n.values)}

    def e_Name(self, n, env):
        if n.id in env:
            v = env[n.id]
            if v is UNDEF:
                raise Unsupported("use of a variable defined on one branch only: %s" % n.id)
            return v
        if n.id in self.glob:
            return self.glob[n.id]
        b = self.glob.get("__builtins__", {})
        if isinstance(b, dict) and n.id in b:
            return b[n.id]
        import builtins
        if hasattr(builtins, n.id):
            return getattr(builtins, n.id)
        raise NameError(n.id)

    def e_Attribute(self, n, env): return getattr(self.ev(n.value, env), n.attr)

    def e_Subscript(self, n, env):
        return self.ev(n.value, env)[self.ev(n.slice, env)]

    def e_Slice(self, n, env):
        return slice(self.ev(n.lower, env) if n.lower else None, self.ev(n.upper, env) if n.upper else None, self.ev(n.step, env) if n.step else None)

    def e_UnaryOp(self, n, env):
        v = self.ev(n.operand, env)
        if isinstance(n.op, ast.USub): return -v
        if isinstance(n.op, ast.UAdd): return +v
        if isinstance(n.op, ast.Invert): return ~v
        if isinstance(n.op, ast.Not):
            if isinstance(v, SB): return SB(z3.Not(v.t))
            if isinstance(v, SR): return v == 0
            return not v
        raise Unsupported(ast.dump(n.op))

    def e_BinOp(self, n, env):
        a, b = self.ev(n.left, env), self.ev(n.right, env)
        r = ctx.cur()
        if r is not None and isinstance(n.op, (ast.Div, ast.Mod, ast.FloorDiv, ast.Pow)):
            r.where = ast.unparse(n)[:70]
        if self.exact_div and isinstance(n.op, ast.Div):
            from fractions import Fraction
            ok = lambda v: isinstance(v, (int, Fraction, rnp.integer)) and not isinstance(v, (bool, rnp.bool_))
            if ok(a) and ok(b) and b != 0:
                return Fraction(int(a) if not isinstance(a, Fraction) else a) / Fraction(int(b) if not isinstance(b, Fraction) else b)
        return BIN[type(n.op)](a, b)

    def e_Compare(self, n, env):
        left = self.ev(n.left, env)
        res = None
        for op, c in zip(n.ops, n.comparators):
            right = self.ev(c, env)
            if isinstance(op, (ast.In, ast.NotIn)):
                r = self._in(left, right)
                if isinstance(op, ast.NotIn):
                    r = (~r) if isinstance(r, SB) else (not r)
            else:
                r = CMP[type(op)](left, right)
            res = r if res is None else self._and(res, r)
            left = right
        return res

    def _in(self, a, coll):
        if not is_sym(a):
            return a in coll
        r = False
        for e in coll:
            r = self._or(r, a == e)
        return r

    @staticmethod
    def _and(a, b):
        if not isinstance(a, SB): return b if a else a
        if not isinstance(b, SB): return a if b else SB(z3.BoolVal(False))
        return SB(z3.And(a.t, b.t))

    @staticmethod
    def _or(a, b):
        if not isinstance(a, SB): return a if a else b
        if not isinstance(b, SB): return SB(z3.BoolVal(True)) if b else a
        return SB(z3.Or(a.t, b.t))

    @staticmethod
    def _truth(v):
        if isinstance(v, SR):
            return v != 0
        return v

    def e_BoolOp(self, n, env):
        is_and = isinstance(n.op, ast.And)
        acc = None
        for vn in n.values:
            if acc is None:
                acc = self._truth(self.ev(vn, env))
                continue
            if not isinstance(acc, SB):
                # concrete so far: Python short-circuit
                if (is_and and not acc) or ((not is_and) and acc):
                    return acc
                acc = self._truth(self.ev(vn, env))
                continue
            # symbolic: the next operand is only evaluated when acc does not already decide
            g = acc.t if is_and else z3.Not(acc.t)
            with ctx.guarded(g):
                v = self._truth(self.ev(vn, env))
            acc = self._and(acc, v) if is_and else self._or(acc, v)
        return acc

    def e_IfExp(self, n, env):
        c = self._truth(self.ev(n.test, env))
        if not isinstance(c, SB):
            return self.ev(n.body if c else n.orelse, env)
        s = z3.simplify(c.t)
        if z3.is_true(s): return self.ev(n.body, env)
        if z3.is_false(s): return self.ev(n.orelse, env)
        with ctx.guarded(c.t):
            a = self.ev(n.body, env)
        with ctx.guarded(z3.Not(c.t)):
            b = self.ev(n.orelse, env)
        return ite(c.t, a, b)

    def e_Call(self, n, env):
        f = self.ev(n.func, env)
        args = []
        for a in n.args:
            if isinstance(a, ast.Starred):
                args.extend(self.ev(a.value, env))
            else:
                args.append(self.ev(a, env))
        kw = {}
        for k in n.keywords:
            if k.arg is None:
                kw.update(self.ev(k.value, env))
            else:
                kw[k.arg] = self.ev(k.value, env)
        r = ctx.cur()
        if r is not None and not isinstance(f, _Closure):
            r.where = ast.unparse(n)[:70]
        selfobj = getattr(f, "__self__", None)
        if (isinstance(selfobj, rnp.ndarray)) or (getattr(f, "__module__", None) or "").startswith("numpy"):
            # real numpy receiving the sym-aware builtins as dtypes (x.astype(int), np.zeros(n, dtype=float))
            from .shim import _real_dtype
            args = [_real_dtype(a) if callable(a) else a for a in args]
            kw = {k: (_real_dtype(v) if callable(v) else v) for k, v in kw.items()}
        import types as _t
        if isinstance(f, _t.FunctionType) and getattr(f, "__module__", None) == self.glob.get("__name__") and f.__name__ in self.glob and self.glob.get(f.__name__) is f:
            # a helper of the module under analysis: interpret it from its source as well
            try:
                return _Closure(self, get_function_ast(f), {})(*args, **kw)
            except (OSError, TypeError):
                pass
        return f(*args, **kw)

    def e_ListComp(self, n, env):
        out = GList()
        self._comp(n.generators, 0, dict(env), lambda e: out.append(self.ev(n.elt, e)))
        return out

    def e_GeneratorExp(self, n, env):
        return iter(self.e_ListComp(n, env))

    def _comp(self, gens, i, env, emit):
        if i == len(gens):
            emit(env)
            return
        g = gens[i]
        for item in self.ev(g.iter, env):
            e2 = dict(env)
            self._bind(g.target, item, e2)
            if all(bool(self.ev(c, e2)) for c in g.ifs):
                self._comp(gens, i + 1, e2, emit)

    def e_Lambda(self, n, env):
        return _Closure(self, ast.FunctionDef(name="<lambda>", args=n.args, body=[ast.Return(value=n.body)], decorator_list=[]), env)

    def e_JoinedStr(self, n, env): return "<fstring>"
    def e_FormattedValue(self, n, env): return "<fmt>"

    # ------------------------------------------------------------------ function bodies with early returns
    @staticmethod
    def _has_return(node):
        return any(isinstance(n, ast.Return) for n in ast.walk(node))

    def run_body(self, stmts, env, depth=0):
        """execute a function body; `if c: return a` under a symbolic c becomes ite(c, a, <value of the rest>)
        (the continuation is executed once per branch); returns ("ret", value) or ("env", env)"""
        if depth > 12:
            raise Unsupported("too many nested conditional returns")
        for i, st in enumerate(stmts):
            if isinstance(st, ast.Return):
                return "ret", (self.ev(st.value, env) if st.value is not None else None)
            if isinstance(st, ast.If) and self._has_return(st):
                c = self._truth(self.ev(st.test, env))
                rest = stmts[i + 1:]
                if isinstance(c, SB):
                    sc = z3.simplify(c.t)
                    if z3.is_true(sc):
                        c = True
                    elif z3.is_false(sc):
                        c = False
                if not isinstance(c, SB):
                    return self.run_body(list(st.body if c else st.orelse) + list(rest), env, depth)
                if self.fork_ifs and self.merge_depth == 0:
                    return self.run_body(list(st.body if bool(c) else st.orelse) + list(rest), env, depth)
                self.merge_depth += 1
                try:
                    with ctx.guarded(c.t):
                        k1, v1 = self.run_body(list(st.body) + list(rest), dict(env), depth + 1)
                    with ctx.guarded(z3.Not(c.t)):
                        k2, v2 = self.run_body(list(st.orelse) + list(rest), dict(env), depth + 1)
                finally:
                    self.merge_depth -= 1
                if k1 == "ret" and k2 == "ret":
                    return "ret", self._merge_val(c.t, v1, v2, "<return value>")
                if k1 == "env" and k2 == "env":
                    return "ret", None
                raise Unsupported("a function that returns a value on one symbolic branch and falls off its end on the other")
            try:
                env = self.st(st, env)
            except _Return as r:
                return "ret", r.v
        return "env", env

    # ------------------------------------------------------------------ statements
    def block(self, stmts, env):
        for st in stmts:
            env = self.st(st, env)
        return env

    def st(self, n, env):
        return getattr(self, "s_" + type(n).__name__)(n, env)

    def s_Pass(self, n, env): return env
    def s_Break(self, n, env):
        e = _Break()
        e.env = env          # the state at the point of the break (used by harnesses that drive a loop body themselves)
        raise e
    def s_Continue(self, n, env): raise _Continue()
    def s_Import(self, n, env): return env
    def s_ImportFrom(self, n, env): return env
    def s_Assert(self, n, env): return env

    def s_Expr(self, n, env):
        if isinstance(n.value, ast.Constant):
            return env
        self.ev(n.value, env)
        return env

    def _bind(self, t, v, env):
        if isinstance(t, ast.Name):
            env[t.id] = v
            self.trace.append((t.id, v))
        elif isinstance(t, (ast.Tuple, ast.List)):
            vals = list(v)
            if len(vals) != len(t.elts):
                raise ValueError("unpack length mismatch")
            for tt, vv in zip(t.elts, vals):
                self._bind(tt, vv, env)
        elif isinstance(t, ast.Subscript):
            obj = self.ev(t.value, env)
            idx = self.ev(t.slice, env)
            r = ctx.cur()
            if r is not None and r.guards and not isinstance(obj, dict):
                g = z3.And(*r.guards) if len(r.guards) > 1 else r.guards[0]
                try:
                    old = obj[idx]
                except Exception:
                    old = None
                if isinstance(obj, rnp.ndarray) and isinstance(idx, rnp.ndarray):
                    obj[idx] = v      # masked assignment is merged by SymNd itself
                else:
                    obj[idx] = ite(g, v, old) if old is not None else v
            else:
                obj[idx] = v
        elif isinstance(t, ast.Attribute):
            setattr(self.ev(t.value, env), t.attr, v)
        else:
            raise Unsupported("assignment target %s" % type(t).__name__)

    def s_Assign(self, n, env):
        v = self.ev(n.value, env)
        env = dict(env)
        for t in n.targets:
            self._bind(t, v, env)
        return env

    def s_AnnAssign(self, n, env):
        if n.value is None:
            return env
        env = dict(env)
        self._bind(n.target, self.ev(n.value, env), env)
        return env

    def s_AugAssign(self, n, env):
        cur = self.ev(ast.copy_location(_load(n.target), n), env)
        v = BIN[type(n.op)](cur, self.ev(n.value, env))
        env = dict(env)
        self._bind(n.target, v, env)
        return env

    def s_FunctionDef(self, n, env):
        env = dict(env)
        env[n.name] = _Closure(self, n, env)
        return env

    def s_Return(self, n, env):
        self.last_env = env
        raise _Return(self.ev(n.value, env) if n.value is not None else None)

    def s_Raise(self, n, env):
        r = ctx.cur()
        if r is not None and r.guards:
            # a raise reached under a symbolic guard: record "guard must be false" as a no-raise VC
            g = z3.And(*r.guards) if len(r.guards) > 1 else r.guards[0]
            what = ast.unparse(n.exc)[:120] if n.exc is not None else "raise"
            r.vcs.append(("raise", z3.BoolVal(True), z3.Not(g)))
            r.log.append("raise under guard: %s" % what)
            return env
        exc = self.ev(n.exc, env) if n.exc is not None else RuntimeError("re-raise")
        raise exc if isinstance(exc, BaseException) else exc()

    def s_If(self, n, env):
        c = self._truth(self.ev(n.test, env))
        if not isinstance(c, SB):
            return self.block(n.body if c else n.orelse, env)
        s = z3.simplify(c.t)
        if z3.is_true(s): return self.block(n.body, env)
        if z3.is_false(s): return self.block(n.orelse, env)
        if self.fork_ifs and self.merge_depth == 0:
            return self.block(n.body if bool(c) else n.orelse, env)
        return self.merge(c.t, lambda e: self.block(n.body, e), lambda e: self.block(n.orelse, e), env)

    def merge(self, ct, then_f, else_f, env):
        self.merge_depth += 1
        try:
            with ctx.guarded(ct):
                e1 = then_f(dict(env))
            with ctx.guarded(z3.Not(ct)):
                e2 = else_f(dict(env))
        except (_Return, _Break, _Continue) as e:
            raise Unsupported("%s under a symbolic condition" % type(e).__name__.strip("_").lower())
        finally:
            self.merge_depth -= 1
        out = {}
        for k in set(e1) | set(e2):
            a, b = e1.get(k, UNDEF), e2.get(k, UNDEF)
            if a is b:
                out[k] = a
            elif a is UNDEF or b is UNDEF:
                out[k] = UNDEF
            else:
                out[k] = self._merge_val(ct, a, b, k)
                self.trace.append((k, out[k]))
        return out

    def _merge_val(self, ct, a, b, name=""):
        if isinstance(a, (SR, SC, SB, AR)) or isinstance(b, (SR, SC, SB, AR)) or isinstance(a, (int, float, bool, complex, rnp.number)) and isinstance(b, (int, float, bool, complex, rnp.number)):
            if not is_sym(a) and not is_sym(b) and a == b and type(a) is type(b):
                return a
            return ite(ct, a, b)
        if isinstance(a, rnp.ndarray) and isinstance(b, rnp.ndarray) and a.shape == b.shape:
            from .shim import _map
            return _map(lambda x, y: x if x is y else ite(ct, x, y), a, b)
        if isinstance(a, (list, tuple)) and isinstance(b, (list, tuple)) and len(a) == len(b):
            return type(a)(x if x is y else self._merge_val(ct, x, y) for x, y in zip(a, b))
        if a is None and b is None:
            return None
        try:
            if a == b:
                return a
        except Exception:
            pass
        raise Unsupported("cannot merge %s: %s vs %s" % (name, type(a).__name__, type(b).__name__))

    def s_For(self, n, env):
        it = self.ev(n.iter, env)
        if isinstance(it, SymRange):
            return self._for_sym(n, it, env)
        try:
            for item in it:
                env = dict(env)
                self._bind(n.target, item, env)
                try:
                    env = self.block(n.body, env)
                except _Continue:
                    continue
                except _Break:
                    break
        except SymbolicBranch:
            raise
        return env

    def _for_sym(self, n, rng, env):
        """for k in range(count) with symbolic count: unrolled, iteration k guarded by k < count"""
        if self.fork_ifs and self.merge_depth == 0:
            # fork mode: the trip count is concrete on each path
            cnt = ctx.concretize_int(rng.count.t if z3.is_int(rng.count.t) else z3.ToInt(rng.count.t))
            for k in range(cnt):
                self._bind(n.target, k, env)
                try:
                    env = self.block(n.body, env)
                except _Break:
                    break
                except _Continue:
                    continue
            return env
        B = self.loop_bound
        for k in range(B):
            g = (rng.count > k).t
            if z3.is_false(z3.simplify(g)):
                break

            def body(e, k=k):
                self._bind(n.target, k, e)
                return self.block(n.body, e)
            env = self.merge(g, body, lambda e: e, env)
        self.unwind.append(("for-range", (rng.count <= B).t))
        return env

    def s_While(self, n, env):
        B = self.loop_bound
        for _ in range(B * 4):
            c = self._truth(self.ev(n.test, env))
            if isinstance(c, SB):
                s = z3.simplify(c.t)
                if z3.is_true(s): c = True
                elif z3.is_false(s): c = False
                elif self.fork_ifs and self.merge_depth == 0:
                    c = bool(c)          # fork mode: the loop test is decided per path (whole-run exploration at small sizes)
                else:
                    raise SymbolicBranch("while on a symbolic condition (drive the loop body from the harness)")
            if not c:
                return env
            try:
                env = self.block(n.body, env)
            except _Break:
                return env
            except _Continue:
                continue
        raise Unsupported("while loop exceeded the bound")

    def s_With(self, n, env):
        return self.block(n.body, env)

    def s_Try(self, n, env):
        return self.block(n.body, env)


class SymRange:
    def __init__(self, count):
        self.count = count


def sym_range(*a):
    if len(a) == 1 and isinstance(a[0], SR):
        s = z3.simplify(a[0].t)
        if z3.is_int_value(s):
            return range(s.as_long())
        return SymRange(a[0])
    return range(*[int(x) for x in a])


def _load(t):
    t2 = ast.parse(ast.unparse(t), mode="eval").body
    return t2


class _Closure:
    def __init__(self, interp, fd, env):
        self.interp, self.fd, self.env = interp, fd, env
        self.__name__ = fd.name

    def __call__(self, *args, **kw):
        env = dict(self.env)
        a = self.fd.args
        names = [p.arg for p in a.args]
        defaults = a.defaults
        kw = dict(kw)
        for i, nm in enumerate(names):
            if i < len(args):
                env[nm] = args[i]
            elif nm in kw:
                env[nm] = kw.pop(nm)
            else:
                d = i - (len(names) - len(defaults))
                env[nm] = self.interp.ev(defaults[d], self.env)
        for p, dflt in zip(a.kwonlyargs, a.kw_defaults):
            if p.arg in kw:
                env[p.arg] = kw.pop(p.arg)
            elif dflt is not None:
                env[p.arg] = self.interp.ev(dflt, self.env)
        if a.vararg is not None:
            env[a.vararg.arg] = tuple(args[len(names):])
        if a.kwarg is not None:
            env[a.kwarg.arg] = kw
        kind, val = self.interp.run_body(self.fd.body, env)
        return val if kind == "ret" else None


def find_nodes(tree, typ, pred=None):
    return [n for n in ast.walk(tree) if isinstance(n, typ) and (pred is None or pred(n))]


def run_function(f, glob, args=(), kwargs=None, exact_div=True, loop_bound=16):
    """interpret a whole function from its current source"""
    fd = get_function_ast(f)
    I = Interp(glob, loop_bound=loop_bound, exact_div=exact_div)
    return _Closure(I, fd, {})(*args, **(kwargs or {}))
