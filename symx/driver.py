"""symx.driver -- run one property's obligations on all cores, apply the known-findings list,
print VIOLATION / KNOWN-FINDING lines, write evidence/<id>.json, set the exit code.

exit 0  property held on everything explored (inconclusive obligations are listed, not hidden)
exit 1  a replayed violation that known_findings.json does not list
exit 2  harness error: vacuous harness, non-reproducing model, solver disagreement, encoder failure
"""
import fnmatch, hashlib, importlib, inspect, json, multiprocessing as mp, os, sys, time, traceback

ROOT = os.path.dirname(os.path.dirname(os.path.abspath(__file__)))
OUT = os.path.join(ROOT, "out")


def _worker(job):
    mod, fname, params, name, opts = job
    import logging
    logging.disable(logging.CRITICAL)
    from . import world, solve
    solve.STATS.update({"queries": 0, "solver_s": 0.0, "by_engine": {}, "hashes": set(), "trivial": 0, "nontrivial_hashes": set(), "unknown": 0})
    m = importlib.import_module(mod)
    fn = getattr(m, fname)
    opts = {k: v for k, v in opts.items() if not k.startswith("_")}
    try:
        rec = world.run_obligation(fn, params, name, **opts)
    except solve.HarnessError as e:
        rec = {"name": name, "params": world._jsonable(params), "goals": [{"goal": "<harness>", "verdict": "harness-error", "reason": str(e)}], "status": "harness-error", "notes": [], "paths": 0, "exec_s": 0, "wall_s": 0}
    except Exception as e:
        rec = {"name": name, "params": world._jsonable(params), "goals": [{"goal": "<harness>", "verdict": "harness-error", "reason": "%s: %s" % (type(e).__name__, e), "trace": traceback.format_exc()[-2000:]}], "status": "harness-error", "notes": [], "paths": 0, "exec_s": 0, "wall_s": 0}
    st = solve.STATS
    rec["stats"] = {"queries": st["queries"], "solver_s": st["solver_s"], "by_engine": st["by_engine"], "hashes": sorted(st["hashes"]), "nontrivial_hashes": sorted(st["nontrivial_hashes"]), "trivial": st["trivial"], "unknown": st["unknown"]}
    return rec


def run_jobs(jobs, nproc, hard_limit=None):
    """one forked child per obligation (at most nproc at a time); a child that crashes (z3 aborts have been seen) or
    exceeds its hard limit is reported as a harness error for that obligation instead of hanging the run"""
    import pickle, select, signal, time as _t
    recs, running, queue = [], {}, list(jobs)

    def launch(job):
        rfd, wfd = os.pipe()
        pid = os.fork()
        if pid == 0:
            code = 0
            try:
                os.close(rfd)
                rec = _worker(job)
                data = pickle.dumps(rec)
                view = memoryview(data)
                while view:
                    n = os.write(wfd, view[:1 << 16])
                    view = view[n:]
            except BaseException:
                code = 3
            finally:
                os._exit(code)
        os.close(wfd)
        to = job[4].get("timeout", 20.0)
        limit = hard_limit or job[4].get("_limit") or max(600.0, 40 * to)
        running[rfd] = dict(pid=pid, job=job, buf=bytearray(), t0=_t.time(), limit=limit)

    def fail(job, why):
        return {"name": job[3], "params": {}, "goals": [{"goal": "<worker>", "verdict": "harness-error", "reason": why}], "status": "harness-error", "notes": [], "paths": 0, "exec_s": 0, "wall_s": 0, "stats": {}}
    while queue or running:
        while queue and len(running) < nproc:
            launch(queue.pop(0))
        rl, _, _ = select.select(list(running), [], [], 1.0)
        for fd in rl:
            st = running[fd]
            chunk = os.read(fd, 1 << 20)
            if chunk:
                st["buf"] += chunk
                continue
            os.close(fd)
            try:
                os.waitpid(st["pid"], 0)
            except OSError:
                pass
            del running[fd]
            try:
                recs.append(pickle.loads(bytes(st["buf"])))
            except Exception:
                recs.append(fail(st["job"], "worker process died without a result (crash in the solver library or out of memory)"))
        now = _t.time()
        for fd, st in list(running.items()):
            if now - st["t0"] > st["limit"]:
                try:
                    os.kill(st["pid"], signal.SIGKILL)
                    os.waitpid(st["pid"], 0)
                except OSError:
                    pass
                os.close(fd)
                del running[fd]
                recs.append(fail(st["job"], "obligation exceeded its hard limit of %.0f s and was killed" % st["limit"]))
    return recs


def source_digest(objs):
    out = []
    for o in objs:
        f = getattr(o, "py_func", o)
        try:
            src = inspect.getsource(f)
            out.append({"function": "%s.%s" % (getattr(f, "__module__", "?"), getattr(f, "__qualname__", getattr(f, "__name__", "?"))), "sha256": hashlib.sha256(src.encode()).hexdigest()[:16], "lines": src.count("\n")})
        except Exception as e:
            out.append({"function": repr(o)[:80], "sha256": None, "note": str(e)[:80]})
    return out


def load_known():
    p = os.path.join(ROOT, "known_findings.json")
    if not os.path.exists(p):
        return []
    return json.load(open(p))["findings"]


def main(argv=None):
    argv = argv or sys.argv[1:]
    if not argv:
        print("usage: check <Cxx> [quick|thorough] [--replay file] [--only pattern] [--jobs n]")
        return 2
    pid = argv[0]
    tier = os.environ.get("VERIF_TIER") or "quick"
    only, replay_file, jobs = None, None, None
    i = 1
    while i < len(argv):
        a = argv[i]
        if a in ("quick", "thorough"):
            tier = a
        elif a == "--only":
            only = argv[i + 1]; i += 1
        elif a == "--replay":
            replay_file = argv[i + 1]; i += 1
        elif a == "--jobs":
            jobs = int(argv[i + 1]); i += 1
        i += 1
    seed = int(os.environ.get("VERIF_SEED", "0") or 0)
    t0 = time.time()
    import logging
    logging.disable(logging.CRITICAL)
    sys.path.insert(0, ROOT)
    hmod = "harness.%s" % pid
    H = importlib.import_module(hmod)
    # everything heavy is imported once here, before the per-obligation children are forked
    for m in ("speckit.core", "speckit.core_cuda", "speckit.analysis", "speckit.schedulers", "speckit.utils", "speckit.dsp", "speckit.noise", "speckit.systems"):
        try:
            importlib.import_module(m)
        except Exception as e:
            print("HARNESS-ERROR import %s: %s" % (m, e))
            return 2
    if replay_file:
        return do_replay(H, replay_file)
    obs = H.obligations(tier)
    if only:
        obs = [o for o in obs if fnmatch.fnmatch(o["name"], only)]
    jobs_n = jobs or min(16, os.cpu_count() or 4)
    default_to = 20.0 if tier == "quick" else 300.0
    joblist = []
    for o in obs:
        opts = {"timeout": o.get("timeout", default_to), "fork": o.get("fork", False), "max_paths": o.get("max_paths", 64),
                "vacuity": o.get("vacuity", True), "replay": o.get("replay", True), "only": o.get("only")}
        if o.get("limit"):
            opts["_limit"] = o["limit"]
        joblist.append((hmod, o["fn"], o["params"], o["name"], opts))
    # heavier first
    order = sorted(range(len(joblist)), key=lambda k: -obs[k].get("weight", 1))
    recs = run_jobs([joblist[k] for k in order], jobs_n, hard_limit=float(os.environ.get("SYMX_JOB_LIMIT", "0")) or None)
    recs.sort(key=lambda r: r["name"])
    return report(pid, tier, seed, H, recs, time.time() - t0)


def report(pid, tier, seed, H, recs, wall):
    known = [k for k in load_known() if k["property"] == pid]
    openk = [k for k in known if k.get("status") == "open"]
    n_goals = n_hold = n_unknown = 0
    violations, knowns, herrs, unknowns = [], [], [], []
    hashes, nthashes = set(), set()
    queries = 0
    solver_s = 0.0
    engines = {}
    for r in recs:
        st = r.get("stats", {})
        queries += st.get("queries", 0)
        solver_s += st.get("solver_s", 0.0)
        hashes.update(st.get("hashes", []))
        nthashes.update(st.get("nontrivial_hashes", []))
        for e, c in st.get("by_engine", {}).items():
            engines[e] = engines.get(e, 0) + c
        for g in r["goals"]:
            gid = "%s/%s" % (r["name"], g["goal"])
            v = g["verdict"]
            if os.environ.get("SYMX_VERBOSE"):
                print("  [%s] %s %ss %s" % (v, gid, g.get("time"), g.get("engine")))
            if v in ("reachable",):
                continue
            n_goals += 1
            if v == "holds":
                n_hold += 1
            elif v in ("unknown", "reach-unknown"):
                n_unknown += 1
                unknowns.append((gid, g.get("reason", "solver timeout/unknown")))
            elif v == "violated":
                hit = [k for k in openk if fnmatch.fnmatch(gid, k["obligation"])]
                if hit:
                    knowns.append((gid, hit[0], g))
                else:
                    violations.append((gid, r, g))
            elif v == "unconfirmed" and any(fnmatch.fnmatch(gid, k["obligation"]) for k in openk):
                # an obligation of a LISTED open finding came back sat, but this run's model did not reproduce on the real code (the listed
                # failing input does): neither a new violation nor an encoder problem -- reported as inconclusive
                n_unknown += 1
                unknowns.append((gid, "sat at an obligation of a listed known finding; this model did not reproduce on the real code"))
            else:  # unconfirmed, vacuous, harness-error, encoder-error, sat-noreplay
                herrs.append((gid, v, g.get("reason") or g.get("replay")))
    os.makedirs(os.path.join(OUT, pid), exist_ok=True)
    # known findings: one line per listed finding that was observed
    seen_k = {}
    for gid, k, g in knowns:
        seen_k.setdefault(k["id"], (k, []))[1].append(gid)
    for kid, (k, gids) in sorted(seen_k.items()):
        print("KNOWN-FINDING: property=%s %s [%s; %d obligations, e.g. %s]" % (pid, k["what"], kid, len(gids), gids[0]))
    vio_lines = []
    for gid, r, g in violations:
        h = hashlib.sha256(gid.encode()).hexdigest()[:12]
        path = os.path.join(OUT, pid, "%s.json" % h)
        json.dump({"property": pid, "obligation": gid, "harness": "harness.%s" % pid, "fn": r.get("fn"), "name": r["name"], "params": r["params"], "goal": g["goal"],
                   "model": g.get("model"), "replay": g.get("replay"), "reason": g.get("reason"), "meta": g.get("meta"),
                   "how": "./check %s --replay %s" % (pid, path)}, open(path, "w"), indent=1)
        vio_lines.append("VIOLATION property=%s replay=%s" % (pid, path))
        print("VIOLATION property=%s replay=%s" % (pid, path))
        print("  obligation: %s" % gid)
        if g.get("model"):
            print("  model: %s" % json.dumps(g["model"])[:600])
        if g.get("replay") or g.get("reason"):
            print("  real code: %s" % json.dumps(g.get("replay") or g.get("reason"))[:400])
    for gid, v, why in herrs:
        print("HARNESS-ERROR %s: %s %s" % (gid, v, json.dumps(why)[:400] if why else ""))
    for gid, why in unknowns[:40]:
        print("INCONCLUSIVE %s: %s" % (gid, str(why)[:200]))
    meta = getattr(H, "META", {})
    funcs = []
    try:
        funcs = source_digest(H.encoded_functions())
    except Exception as e:
        funcs = [{"note": "digest failed: %s" % e}]
    samples = []
    for r in recs[:: max(1, len(recs) // 6)][:8]:
        gs = [g for g in r["goals"] if g["verdict"] not in ("reachable",)][:3]
        samples.append({"obligation": r["name"], "params": r["params"], "paths": r.get("paths"),
                        "goals": [{k: g.get(k) for k in ("goal", "verdict", "time", "engine", "size") if k in g} for g in gs]})
    ev = {
        "property_id": pid, "tier": tier, "seed": seed, "level": "model_checking",
        "coverage": {
            "evaluations": max(queries, 1),
            "distinct_nontrivial": len(nthashes),
            "rule": "one evaluation = one SMT query (negated goal, vacuity twin or fork feasibility) built by executing the current /repo source symbolically; "
                    "distinct = distinct SHA-256 of the asserted terms; non-trivial = the query has at least one free symbol and was not closed by the simplifier",
            "samples": samples,
            "obligations": n_goals, "discharged": n_hold, "inconclusive": n_unknown,
            "violations_unlisted": len(violations), "known_findings_observed": sorted(seen_k),
            "harness_errors": len(herrs),
            "inconclusive_list": [u[0] for u in unknowns][:60],
            "functions_encoded": funcs,
            "bounds": (meta.get("bounds", {}).get(tier) if isinstance(meta.get("bounds"), dict) else meta.get("bounds")),
            "outside_the_claim": meta.get("outside", []),
            "stubs": meta.get("stubs", []),
            "solver_time_s": round(solver_s, 2), "engines": engines,
            "symbolic_paths": sum(r.get("paths", 0) for r in recs),
            "symbolic_exec_s": round(sum(r.get("exec_s", 0) for r in recs), 2),
            "exhaustive": False,
        },
        "assumptions": meta.get("assumptions", []) + ["binary64 arithmetic of the code is modelled as exact real arithmetic; counterexamples are replayed in binary64 on the real build"],
        "wall_s": round(wall, 2),
        "violations": len(violations),
    }
    evdir = os.environ.get("SYMX_EVIDENCE_DIR") or os.path.join(ROOT, "evidence")   # tools/try_patch.sh redirects it: evidence/ only ever describes the unchanged tree
    os.makedirs(evdir, exist_ok=True)
    json.dump(ev, open(os.path.join(evdir, "%s.json" % pid), "w"), indent=1)
    print("%s %s: %d obligations, %d discharged, %d inconclusive, %d known, %d violations, %d harness errors; %d queries, solver %.1fs, wall %.1fs"
          % (pid, tier, n_goals, n_hold, n_unknown, len(knowns), len(violations), len(herrs), queries, solver_s, wall))
    if violations:
        return 1
    if herrs:
        return 2
    if n_hold == 0:
        print("HARNESS-ERROR: nothing was discharged")
        return 2
    return 0


def do_replay(H, path):
    from . import world
    from fractions import Fraction
    d = json.load(open(path))
    ob = [o for o in H.obligations("thorough") + H.obligations("quick") if o["name"] == d["name"]]
    if not ob:
        print("obligation %s no longer exists" % d["name"])
        return 2
    fn = getattr(H, ob[0]["fn"])
    model = {k: Fraction(v) if isinstance(v, str) else Fraction(v) for k, v in (d.get("model") or {}).items()}
    ok, info = world.replay_goal(fn, ob[0]["params"], model, d["goal"].split("#")[0])
    print(json.dumps({"violates": ok, "info": info}, indent=1))
    return 1 if ok else 0


if __name__ == "__main__":
    sys.exit(main())
