"""symx.shim -- stand-ins for numpy / math / builtins that keep symbolic proxies alive.

Symbolic arrays are real numpy object arrays (subclass SymNd), so indexing, slicing, fancy
indexing, broadcasting, .T, @, sum, einsum ... are numpy's own semantics.  Only what numpy
cannot do on objects is overridden here, element-wise, with If-terms (no path forking).
"""
import builtins as _bi
import math as _math
import operator
import types
import numpy as rnp
import z3

from . import ctx
from .proxy import (SR, SC, SB, AR, Angle, Omega, Unsupported, SymbolicBranch, ite, rv, tz, toreal,
                    is_sym, is_num, plain)


# ----------------------------------------------------------------------------- arrays
class SymNd(rnp.ndarray):
    __hash__ = None

    def _cmp(self, o, op):
        a, b = rnp.broadcast_arrays(rnp.asarray(self, dtype=object), rnp.asarray(o, dtype=object))
        out = rnp.empty(a.shape, dtype=object)
        for idx in rnp.ndindex(a.shape):
            out[idx] = op(a[idx], b[idx])
        r = ctx.cur()
        if r is not None and r.decisions is not None and getattr(r, "concrete_masks", False):
            # fork mode with concrete masks: every element is decided now (forking), the mask is an ordinary bool array
            return rnp.array([bool(e) for e in out.reshape(-1)], dtype=bool).reshape(out.shape)
        return out.view(SymNd)

    def __eq__(self, o): return self._cmp(o, operator.eq)
    def __ne__(self, o): return self._cmp(o, operator.ne)
    def __lt__(self, o): return self._cmp(o, operator.lt)
    def __le__(self, o): return self._cmp(o, operator.le)
    def __gt__(self, o): return self._cmp(o, operator.gt)
    def __ge__(self, o): return self._cmp(o, operator.ge)

    def __invert__(self):
        return _map(lambda e: ~SB.lift(e), self)

    @staticmethod
    def _truth(e):
        if isinstance(e, SB):
            return e.t
        if isinstance(e, (bool, rnp.bool_)):
            return z3.BoolVal(bool(e))
        if is_sym(e):
            return (plain(e) != 0).t
        return z3.BoolVal(bool(e != 0))

    def _reduce_bool(self, op, empty, axis):
        if axis is not None:
            a = rnp.asarray(self, dtype=object)
            moved = rnp.moveaxis(a, axis, 0)
            out = rnp.empty(moved.shape[1:], dtype=object)
            for idx in rnp.ndindex(out.shape):
                col = [moved[(j,) + idx] for j in range(moved.shape[0])]
                out[idx] = SB(z3.simplify(op(*[SymNd._truth(e) for e in col]))) if col else empty
            return out.view(SymNd)
        if not self.size:
            return empty
        r = SB(z3.simplify(op(*[SymNd._truth(e) for e in self.flat])))
        return bool(z3.is_true(r.t)) if (z3.is_true(r.t) or z3.is_false(r.t)) else r

    def any(self, axis=None, **k):
        return self._reduce_bool(z3.Or, False, axis)

    def all(self, axis=None, **k):
        return self._reduce_bool(z3.And, True, axis)

    def sum(self, axis=None, **k):
        if any(isinstance(e, SB) for e in self.flat):
            # a symbolic mask counts its true elements
            return _map(lambda e: ite(e, 1, 0) if isinstance(e, SB) else e, self).sum(axis=axis, **k)
        return rnp.ndarray.sum(self, axis=axis, **k)

    _ite = staticmethod(lambda c, new, old: ite(c, new, old))

    def _mask_in_tuple(self, k):
        return isinstance(k, tuple) and sum(1 for e in k if self._is_mask(e)) == 1 and all(self._is_mask(e) or isinstance(e, (slice, int)) for e in k)

    def mean(self, axis=None, keepdims=False, **k):
        a = rnp.asarray(self)
        if axis is None:
            return a.sum() / a.size
        return (a.sum(axis=axis, keepdims=keepdims) / a.shape[axis]).view(SymNd)

    def astype(self, dtype, **k):
        return astype(self, dtype)

    def conj(self):
        return _map(lambda e: e.conjugate() if hasattr(e, "conjugate") else e, self)

    conjugate = conj

    @property
    def real(self):
        return _map(lambda e: e.real if is_sym(e) else rnp.real(e), self)

    @property
    def imag(self):
        return _map(lambda e: e.imag if is_sym(e) else rnp.imag(e), self)

    def _is_mask(self, k):
        return isinstance(k, rnp.ndarray) and k.dtype == object and k.size and any(isinstance(e, SB) for e in k.flat)

    def __getitem__(self, k):
        if self._is_mask(k):
            r = ctx.cur()
            if r is not None and r.decisions is not None and getattr(r, "fork_masks", True):
                # fork mode: decide every mask element, then select for real (the length becomes concrete on this path)
                conc = rnp.array([bool(e) for e in k.reshape(-1)], dtype=bool).reshape(k.shape)
                return rnp.ndarray.__getitem__(self, conc)
            return MaskSel(self, k)
        return rnp.ndarray.__getitem__(self, k)

    def __setitem__(self, k, v):
        if self._is_mask(k) and not isinstance(v, MaskSel):
            r = ctx.cur()
            if r is not None and r.decisions is not None and getattr(r, "fork_masks", True) and isinstance(v, rnp.ndarray) and v.ndim and v.shape != self.shape:
                # fork mode, value already compressed by a[mask] on this path: decide the mask the same way and assign for real
                conc = rnp.array([bool(e) for e in k.reshape(-1)], dtype=bool).reshape(k.shape)
                rnp.ndarray.__setitem__(self, conc, v)
                return
        if self._is_mask(k) and isinstance(v, MaskSel):
            if v.mask is not k:
                raise SymbolicBranch("masked assignment from a selection under a different symbolic mask")
            for idx in rnp.ndindex(self.shape):
                rnp.ndarray.__setitem__(self, idx, ite(SB.lift(k[idx]), v.full[idx], rnp.ndarray.__getitem__(self, idx)))
            return
        if self._is_mask(k):
            if k.shape != self.shape and k.shape == self.shape[:k.ndim]:
                k = rnp.broadcast_to(rnp.asarray(k, dtype=object).reshape(k.shape + (1,) * (self.ndim - k.ndim)), self.shape)     # a[mask_over_leading_axes] = v
            vb = rnp.broadcast_to(rnp.asarray(v, dtype=object), self.shape) if not (isinstance(v, rnp.ndarray) and v.shape != self.shape) else None
            if vb is None or k.shape != self.shape:
                raise SymbolicBranch("masked assignment from a compressed array under a symbolic mask")
            for idx in rnp.ndindex(self.shape):
                rnp.ndarray.__setitem__(self, idx, self._ite(SB.lift(k[idx]), vb[idx], rnp.ndarray.__getitem__(self, idx)))
            return
        if self._mask_in_tuple(k):
            # a[:, mask] = scalar (one symbolic mask along one axis, slices/ints elsewhere): position j of the mask axis is overwritten iff mask[j]
            if isinstance(v, rnp.ndarray) and v.ndim:
                raise SymbolicBranch("masked assignment of an array under a symbolic mask inside an index tuple")
            pos = [i for i, e in enumerate(k) if self._is_mask(e)][0]
            m = k[pos]
            if m.ndim != 1:
                raise SymbolicBranch("multi-dimensional symbolic mask inside an index tuple")
            for j in range(m.shape[0]):
                sub = tuple(j if i == pos else e for i, e in enumerate(k))
                old = rnp.ndarray.__getitem__(self, sub)
                if isinstance(old, rnp.ndarray):
                    new = rnp.empty(old.shape, dtype=object)
                    for idx in rnp.ndindex(old.shape):
                        new[idx] = self._ite(SB.lift(m[j]), v, old[idx])
                    rnp.ndarray.__setitem__(self, sub, new)
                else:
                    rnp.ndarray.__setitem__(self, sub, self._ite(SB.lift(m[j]), v, old))
            return
        rnp.ndarray.__setitem__(self, k, v)

    def item(self, *a):
        return rnp.ndarray.item(self, *a)


def _trunc_value(v):
    if isinstance(v, SR):
        return v.trunc()
    if isinstance(v, rnp.ndarray):
        return _map(_trunc_value, v) if v.dtype == object else (v.astype(rnp.int64) if v.dtype.kind == "f" else v)
    if isinstance(v, (float, rnp.floating)):
        return int(v)
    if isinstance(v, (list, tuple)):
        return [_trunc_value(e) for e in v]
    return v


class IntNd(SymNd):
    """object array standing for an array of INTEGER dtype: whatever is stored into it is cast like numpy casts on assignment
    (truncation towards zero); arithmetic on it gives ordinary (float-like) symbolic arrays; views, copies and `*_like` keep the type"""

    def __array_wrap__(self, out, context=None, return_scalar=False):
        return out.view(SymNd) if isinstance(out, rnp.ndarray) else out

    def __setitem__(self, k, v):
        SymNd.__setitem__(self, k, _trunc_value(v))


class I64Nd(SymNd):
    """object array standing for an int64 array with SYMBOLIC integer elements (np.arange(n) for a symbolic record length):
    arithmetic that stays within the integers (+, -, *, ** with integers) is int64 arithmetic in numpy and wraps silently, so every such
    operation raises the definedness condition 'no int64 overflow' (kind "int64") for its results; anything else behaves like SymNd"""
    LO, HI = -(2 ** 63), 2 ** 63 - 1

    @staticmethod
    def _isint(o):
        if isinstance(o, (bool, rnp.bool_)):
            return False
        if isinstance(o, (int, rnp.integer)):
            return True
        if isinstance(o, SR):
            return z3.is_int(o.t)
        if isinstance(o, I64Nd):
            return True
        if isinstance(o, rnp.ndarray):
            return o.dtype.kind in "iu"
        return False

    def _iop(self, o, f, rev=False):
        if not I64Nd._isint(o):
            return NotImplemented
        out = _map((lambda a, b: f(b, a)) if rev else f, rnp.asarray(self, dtype=object), rnp.asarray(o, dtype=object))
        for e in out.flat:
            if isinstance(e, SR):
                ctx.vc("int64", z3.And(e.t >= I64Nd.LO, e.t <= I64Nd.HI))
        return out.view(I64Nd)

    def _fallback(self, name, o):
        return getattr(rnp.ndarray, name)(rnp.asarray(self, dtype=object).view(SymNd), o)

    def __mul__(self, o):
        r = self._iop(o, operator.mul)
        return self._fallback("__mul__", o) if r is NotImplemented else r

    def __rmul__(self, o):
        r = self._iop(o, operator.mul, True)
        return self._fallback("__rmul__", o) if r is NotImplemented else r

    def __add__(self, o):
        r = self._iop(o, operator.add)
        return self._fallback("__add__", o) if r is NotImplemented else r

    def __radd__(self, o):
        r = self._iop(o, operator.add, True)
        return self._fallback("__radd__", o) if r is NotImplemented else r

    def __sub__(self, o):
        r = self._iop(o, operator.sub)
        return self._fallback("__sub__", o) if r is NotImplemented else r

    def __rsub__(self, o):
        r = self._iop(o, operator.sub, True)
        return self._fallback("__rsub__", o) if r is NotImplemented else r

    def __pow__(self, o):
        if isinstance(o, (int, rnp.integer)) and not isinstance(o, bool) and o >= 0:
            out = rnp.asarray(self, dtype=object) * 0 + 1
            out = out.view(I64Nd)
            for _ in range(int(o)):
                out = out * self          # numpy computes integer powers by repeated int64 multiplication: every partial product must fit
            return out
        return self._fallback("__pow__", o)

    def astype(self, dtype, **k):
        if _is_float_dtype(dtype):
            return rnp.asarray(self, dtype=object).view(SymNd)
        return self


class MaskSel:
    """a[mask] with a symbolic mask: kept at full shape; only usable as the source of b[mask] = ... with the same mask"""
    def __init__(self, full, mask):
        self.full, self.mask = full, mask

    def _op(self, o, f, rev=False):
        other = o.full if isinstance(o, MaskSel) else o
        return MaskSel(f(other, self.full) if rev else f(self.full, other), self.mask)

    def __add__(self, o): return self._op(o, operator.add)
    def __radd__(self, o): return self._op(o, operator.add, True)
    def __sub__(self, o): return self._op(o, operator.sub)
    def __rsub__(self, o): return self._op(o, operator.sub, True)
    def __mul__(self, o): return self._op(o, operator.mul)
    def __rmul__(self, o): return self._op(o, operator.mul, True)
    def __truediv__(self, o): return self._op(o, operator.truediv)
    def __rtruediv__(self, o): return self._op(o, operator.truediv, True)
    def __len__(self): raise SymbolicBranch("length of a selection by a symbolic mask")


def _map(f, a, *more):
    a = rnp.asarray(a, dtype=object) if not isinstance(a, rnp.ndarray) else a
    if more:
        arrs = rnp.broadcast_arrays(a, *[rnp.asarray(m, dtype=object) for m in more])
        out = rnp.empty(arrs[0].shape, dtype=object)
        for idx in rnp.ndindex(out.shape):
            out[idx] = f(*[x[idx] for x in arrs])
        return out.view(SymNd)
    out = rnp.empty(a.shape, dtype=object)
    for idx in rnp.ndindex(a.shape):
        out[idx] = f(a[idx])
    return out.view(SymNd)


def generic_arange(count):
    """np.arange(K) for symbolic K as the generic-element array [0, m, m+1, K-1] (valid: element 0 and 3 when K>=1,
    elements 1,2 when K>=2 with 0<=m<=K-2) -- covers 'first', 'last', 'any element' and 'any consecutive pair' for every K"""
    run = ctx.cur()
    cnt = count.t if z3.is_int(count.t) else z3.ToInt(count.t)
    m = ctx.fresh("arange_m", "int")
    run.assumptions.append(z3.Implies(cnt >= 2, z3.And(m >= 0, m <= cnt - 2)))
    if not hasattr(run, "gen_aranges"):
        run.gen_aranges = []
    run.gen_aranges.append((cnt, m))
    return oarr([SR(z3.IntVal(0)), SR(m), SR(m + 1), SR(cnt - 1)])


def oarr(items, shape=None):
    items = list(items)
    a = rnp.empty(len(items), dtype=object)
    for i, e in enumerate(items):
        a[i] = e
    a = a.view(SymNd)
    return a if shape is None else a.reshape(shape)


def has_sym(a):
    if isinstance(a, rnp.ndarray):
        return a.dtype == object and any(is_sym(e) for e in a.flat)
    if isinstance(a, (list, tuple)):
        return any(has_sym(e) for e in a)
    return is_sym(a)


def _real_dtype(dt):
    """the sym-aware builtins stand for the types they replace when used as dtypes"""
    nm = getattr(dt, "__name__", None)
    if nm in ("b_int",):
        return int
    if nm in ("b_float",):
        return float
    if nm in ("b_complex",):
        return complex
    return dt


def _is_float_dtype(dt):
    dt = _real_dtype(dt)
    try:
        return rnp.issubdtype(rnp.dtype(dt), rnp.floating) or rnp.issubdtype(rnp.dtype(dt), rnp.complexfloating)
    except TypeError:
        return False


def _is_int_dtype(dt):
    dt = _real_dtype(dt)
    try:
        return rnp.issubdtype(rnp.dtype(dt), rnp.integer)
    except TypeError:
        return False


def astype(a, dtype, **k):
    if not has_sym(a):
        dtype = _real_dtype(dtype)
        return rnp.asarray(a).astype(dtype, **k) if rnp.asarray(a).dtype != object else _concrete_cast(a, dtype)
    if _is_int_dtype(dtype):
        r = ctx.cur()
        if r is not None and r.decisions is not None and getattr(r, "concretize_ints", False):
            # fork mode: integer arrays become concrete (one path per feasible value), e.g. to be used as indices
            flat = [(ctx.concretize_int(e.trunc().t) if isinstance(e, SR) else int(e)) for e in rnp.asarray(a, dtype=object).reshape(-1)]
            return rnp.array(flat, dtype=rnp.int64).reshape(rnp.shape(a))
        return _map(lambda e: e.trunc() if isinstance(e, SR) else (int(e) if is_num(e) else e), a)
    if any(isinstance(e, SB) for e in rnp.asarray(a, dtype=object).flat):
        # boolean mask cast to a number type: True -> 1, False -> 0
        one, zero = (SC(1, 0), SC(0, 0)) if _iscomplex(dtype) else (SR(z3.RealVal(1)), SR(z3.RealVal(0)))
        return _map(lambda e: ite(e, one, zero) if isinstance(e, SB) else e, a)
    out = rnp.array(a, dtype=object, copy=True).view(SymNd)
    return out


def _concrete_cast(a, dtype):
    return rnp.array([e for e in rnp.asarray(a, dtype=object).flat]).reshape(rnp.shape(a)).astype(dtype)


# ----------------------------------------------------------------------------- scalar helpers
def s_sqrt(x):
    x = plain(x)
    if isinstance(x, SR):
        return x.sqrt()
    if isinstance(x, SC):
        im0 = z3.simplify(toreal(tz(plain(x.im))) == 0)
        if z3.is_true(im0):
            return plain(x.re).sqrt()
        return CSqrt(x)
    if ctx.cur() is not None and is_num(x) and x >= 0:
        # sqrt(2) etc. stay exact (an algebraic number), not the rounded double
        from fractions import Fraction
        return ctx.sqrt(SR(toreal(rv(Fraction(x) if not isinstance(x, Fraction) else x))))
    return rnp.sqrt(x)


CSQRT_ARGS = []


class CSqrt:
    """sqrt of a complex value: only |sqrt(z)| = |z|^(1/2) is available (what np.abs(np.sqrt(z)) needs)"""
    def __init__(self, z):
        self.z = z
        CSQRT_ARGS.append(z)

    def __abs__(self):
        m = abs(self.z)          # sqrt(re^2+im^2)
        return m.sqrt()


def s_abs(x):
    if isinstance(x, CSqrt):
        return abs(x)
    x = plain(x)
    if is_sym(x):
        return abs(x)
    return rnp.abs(x)


def s_cos(x):
    if isinstance(x, Omega) or isinstance(x, Angle):
        if x.imag:
            raise Unsupported("cos of imaginary angle")
        return x.cis().re
    if is_sym(x):
        return ctx.ufun("cos", x)
    return rnp.cos(x)


def s_sin(x):
    if isinstance(x, Angle):
        if x.imag:
            raise Unsupported("sin of imaginary angle")
        return x.cis().im
    if is_sym(x):
        return ctx.ufun("sin", x)
    return rnp.sin(x)


def s_exp(x):
    if isinstance(x, Angle):
        if not x.imag:
            raise Unsupported("exp of a real multiple of the analysis angle")
        return x.cis()
    if isinstance(x, SR):
        return x.exp()
    if is_sym(x):
        raise Unsupported("exp(%r)" % type(x))
    return rnp.exp(x)


def s_round(x, nd=0):
    if isinstance(x, SR):
        return x.round_half_even() if z3.is_int(x.t) else SR(z3.ToReal(x.round_half_even().t))
    return rnp.round(x, nd)


def s_floor(x):
    if isinstance(x, SR):
        return SR(toreal(x.floor().t))
    return rnp.floor(x)


def s_ceil(x):
    if isinstance(x, SR):
        return SR(toreal(x.ceil().t))
    return rnp.ceil(x)


def _elem(f):
    def g(self, a, *args, **kw):
        if isinstance(a, rnp.ndarray) and a.dtype == object or isinstance(a, (list, tuple)) and has_sym(a):
            return _map(lambda e: f(e, *args), a)
        if is_sym(a):
            return f(a, *args)
        return f(a, *args)
    return g


from fractions import Fraction as _Fr
RAD2DEG = _Fr(180) / _Fr(_math.pi)   # pi is the double nearest to pi, taken as an exact rational throughout


# ----------------------------------------------------------------------------- numpy shim
class NumpyShim:
    """drop-in for the name `np` inside cloned functions"""

    def __init__(self, **over):
        self._over = over
        for _k, _v in over.items():          # overrides win over the shim's own methods as well
            if not _k.startswith("linalg_") and _k not in ("random", "fft"):
                self.__dict__[_k] = _v
        self.linalg = _Linalg(self)
        self.random = over.get("random", rnp.random)
        self.fft = over.get("fft", rnp.fft)

    def __getattr__(self, n):
        o = self.__dict__.get("_over", {})
        if n in o:
            return o[n]
        return getattr(rnp, n)

    pi = rnp.pi
    float64 = rnp.float64
    int64 = rnp.int64
    complex128 = rnp.complex128
    ndarray = rnp.ndarray
    newaxis = None

    # ---- construction -----------------------------------------------------
    def empty(self, shape, dtype=None, **k):
        dtype = _real_dtype(dtype)
        if dtype is not None and (_is_int_dtype(dtype) or dtype is object or dtype is bool):
            return rnp.empty(shape, dtype=dtype)
        a = rnp.empty(shape, dtype=object).view(SymNd)
        a.fill(SR(z3.RealVal(0)))  # never read before written in well-formed code; 0 keeps arithmetic total
        return _Uninit.mark(a)

    def zeros(self, shape, dtype=None, **k):
        dtype = _real_dtype(dtype)
        if dtype is not None and (_is_int_dtype(dtype) or dtype is bool):
            return rnp.zeros(shape, dtype=dtype)
        a = rnp.empty(shape, dtype=object).view(SymNd)
        z = SC(0, 0) if dtype is not None and _iscomplex(dtype) else SR(z3.RealVal(0))
        a.fill(z)
        return a

    def ones(self, shape, dtype=None, **k):
        dtype = _real_dtype(dtype)
        if dtype is not None and (_is_int_dtype(dtype) or dtype is bool):
            return rnp.ones(shape, dtype=dtype)
        a = rnp.empty(shape, dtype=object).view(SymNd)
        a.fill(SR(z3.RealVal(1)))
        return a

    def _int_like(self, a, dtype, fill):
        if isinstance(a, IntNd) and dtype is None:
            out = rnp.empty(rnp.shape(a), dtype=object)
            out.fill(SR(z3.IntVal(fill)))
            return out.view(IntNd)
        return None

    def zeros_like(self, a, dtype=None, **k):
        r = self._int_like(a, dtype, 0)
        if r is not None:
            return r
        dtype = _real_dtype(dtype)
        if not has_sym(a) and not (isinstance(a, rnp.ndarray) and a.dtype == object):
            return rnp.zeros_like(a, dtype=dtype)
        cplx = (dtype is not None and _iscomplex(dtype)) or (dtype is None and any(isinstance(e, SC) for e in rnp.asarray(a, dtype=object).flat))
        return self.zeros(rnp.shape(a), dtype=complex if cplx else float)

    def ones_like(self, a, dtype=None, **k):
        r = self._int_like(a, dtype, 1)
        if r is not None:
            return r
        if not has_sym(a) and not (isinstance(a, rnp.ndarray) and a.dtype == object):
            return rnp.ones_like(a, dtype=dtype)
        return self.ones(rnp.shape(a))

    def empty_like(self, a, dtype=None, **k):
        r = self._int_like(a, dtype, 0)
        if r is not None:
            return r
        if not has_sym(a):
            return rnp.empty_like(a, dtype=dtype)
        return self.zeros(rnp.shape(a))

    def array(self, a, dtype=None, copy=True, **k):
        dtype = _real_dtype(dtype)
        if dtype is not None and _iscomplex(dtype) and ctx.cur() is not None and not has_sym(a):
            # complex work arrays may later receive symbolic values (e.g. `acc += H*S`): keep them as object arrays
            out = rnp.array(a, dtype=complex).astype(object)
            return out.view(SymNd)
        if has_sym(a):
            if _is_int_dtype(dtype) if dtype is not None else False:
                return astype(rnp.array(a, dtype=object), dtype)
            out = rnp.array(a, dtype=object)
            return out.view(SymNd)
        return rnp.array(a, dtype=dtype, copy=copy, **k)

    def asarray(self, a, dtype=None, order=None, **k):
        dtype = _real_dtype(dtype)
        if has_sym(a):
            if isinstance(a, rnp.ndarray):
                if dtype is not None and _is_int_dtype(dtype):
                    return astype(a, dtype)
                return a if isinstance(a, SymNd) else a.view(SymNd)
            return self.array(a, dtype=dtype)
        if isinstance(a, rnp.ndarray) and a.dtype == object and dtype is not None and _is_float_dtype(dtype):
            return a  # object array of exact numbers (Fractions) stays exact
        return rnp.asarray(a, dtype=dtype, order=order)

    def asanyarray(self, a, dtype=None, **k):
        return self.asarray(a, dtype=dtype)

    def ascontiguousarray(self, a, dtype=None, **k):
        return self.asarray(a, dtype=dtype)

    def arange(self, *a, **k):
        if any(is_sym(x) for x in a):
            if len(a) != 1 or not isinstance(a[0], SR):
                raise SymbolicBranch("np.arange(start, stop) with symbolic bounds")
            g = generic_arange(a[0])
            dt = k.get("dtype")
            return g if (dt is not None and _is_float_dtype(dt)) else g.view(I64Nd)
        return rnp.arange(*a, **k)

    def vander(self, x, N=None, increasing=False):
        if isinstance(x, I64Nd) or has_sym(x):
            x = x if isinstance(x, rnp.ndarray) else rnp.asarray(x, dtype=object).view(SymNd)
            n = len(x) if N is None else int(N)
            cols = [x ** j for j in range(n)]          # integer input: integer powers (numpy keeps the dtype)
            if not increasing:
                cols = cols[::-1]
            out = rnp.empty((len(x), n), dtype=object)
            for j, c in enumerate(cols):
                for i in range(len(x)):
                    out[i, j] = c[i]
            return out.view(I64Nd if isinstance(x, I64Nd) else SymNd)
        return rnp.vander(x, N, increasing)

    def stack(self, arrs, axis=0, **k):
        if has_sym(list(arrs)):
            return rnp.stack([rnp.asarray(x, dtype=object) for x in arrs], axis=axis).view(SymNd)
        return rnp.stack(arrs, axis=axis, **k)

    def concatenate(self, arrs, axis=0, **k):
        if has_sym(list(arrs)):
            return rnp.concatenate([rnp.asarray(x, dtype=object) for x in arrs], axis=axis).view(SymNd)
        return rnp.concatenate(arrs, axis=axis, **k)

    # ---- element-wise math --------------------------------------------------
    sqrt = _elem(s_sqrt)
    abs = _elem(s_abs)
    absolute = abs
    cos = _elem(s_cos)
    sin = _elem(s_sin)
    exp = _elem(s_exp)
    floor = _elem(s_floor)
    ceil = _elem(s_ceil)

    def round(self, a, decimals=0, **k):
        if has_sym(a):
            if isinstance(a, (rnp.ndarray, list, tuple)):
                return _map(s_round, a)
            return s_round(a)
        return rnp.round(a, decimals)

    around = round
    rint = round

    def conj(self, a):
        if isinstance(a, rnp.ndarray) and a.dtype == object:
            return _map(lambda e: e.conjugate(), a)
        if is_sym(a):
            return a.conjugate()
        return rnp.conj(a)

    conjugate = conj

    def real(self, a):
        if isinstance(a, rnp.ndarray) and a.dtype == object:
            return _map(lambda e: e.real, a)
        return a.real if is_sym(a) else rnp.real(a)

    def imag(self, a):
        if isinstance(a, rnp.ndarray) and a.dtype == object:
            return _map(lambda e: e.imag, a)
        return a.imag if is_sym(a) else rnp.imag(a)

    def log(self, a):
        if has_sym(a):
            return _map(lambda e: e.log(), a) if isinstance(a, rnp.ndarray) else a.log()
        return rnp.log(a)

    def log10(self, a):
        if has_sym(a):
            return _map(lambda e: e.log10(), a) if isinstance(a, rnp.ndarray) else a.log10()
        return rnp.log10(a)

    def arcsin(self, a):
        if has_sym(a):
            return _map(lambda e: e.arcsin(), a) if isinstance(a, rnp.ndarray) else a.arcsin()
        return rnp.arcsin(a)

    def angle(self, a, deg=False):
        if has_sym(a):
            def f(e):
                e = SC.lift(e)
                r = ctx.ufun("atan2", (e.im, e.re))
                return r * RAD2DEG if deg else r
            return _map(f, a) if isinstance(a, rnp.ndarray) else f(a)
        return rnp.angle(a, deg=deg)

    def rad2deg(self, a):
        if has_sym(a):
            return a * RAD2DEG
        return rnp.rad2deg(a)

    degrees = rad2deg

    def unwrap(self, a, discont=None, axis=-1, period=2 * rnp.pi, **k):
        if has_sym(a):
            # numpy's documented algorithm, element by element (1-D): differences are reduced to [-period/2, period/2] and the
            # accumulated correction is added wherever a jump is at least `discont`
            from fractions import Fraction
            a = rnp.asarray(a, dtype=object)
            if a.ndim != 1:
                raise Unsupported("unwrap of a %d-D symbolic array" % a.ndim)
            P = SR(toreal(rv(Fraction(period) if not is_sym(period) else period))) if not is_sym(period) else plain(period)
            half = P / 2
            disc = half if discont is None else (plain(discont) if is_sym(discont) else SR(toreal(rv(Fraction(discont)))))
            out = [a[0]]
            acc = SR(z3.RealVal(0))
            for i in range(1, len(a)):
                dd = plain(a[i]) - plain(a[i - 1])
                x = dd + half
                q = SR(z3.ToReal(z3.ToInt(toreal(tz(x / P)))))      # floor
                ddmod = x - P * q - half
                ddmod = ite((ddmod == -half) & (dd > 0), half, ddmod)
                corr = ddmod - dd
                neg = SR(z3.RealVal(0)) - dd
                absdd = ite(dd >= 0, dd, neg)
                corr = ite(absdd < disc, SR(z3.RealVal(0)), corr)
                acc = acc + corr
                out.append(plain(a[i]) + acc)
            return oarr(out)
        return rnp.unwrap(a, discont=discont, axis=axis, period=period, **k)

    def isfinite(self, a):
        if has_sym(a):
            if isinstance(a, rnp.ndarray):
                return _map(lambda e: _finite_of(e), a)
            return _finite_of(a)
        if isinstance(a, rnp.ndarray) and a.dtype == object:
            return rnp.ones(a.shape, dtype=bool)
        return rnp.isfinite(a)

    def isscalar(self, a):
        return is_sym(a) or rnp.isscalar(a)

    def iscomplexobj(self, a):
        if isinstance(a, rnp.ndarray) and a.dtype == object:
            return any(isinstance(e, (SC, complex)) for e in a.flat)
        return isinstance(a, SC) or rnp.iscomplexobj(a)

    def nan_to_num(self, a, copy=True, nan=0.0, posinf=None, neginf=None):
        # reals are always finite in this model; the NaN/Inf behaviour is modelled separately (C13)
        if isinstance(a, rnp.ndarray) and a.dtype == object or is_sym(a):
            if isinstance(a, rnp.ndarray) and copy:
                return a.copy()
            return a
        return rnp.nan_to_num(a, copy=copy, nan=nan, posinf=posinf, neginf=neginf)

    def divide(self, a, b, out=None, where=True, **k):
        if not (has_sym(a) or has_sym(b) or has_sym(where) or has_sym(out)):
            if out is None and where is True:
                return rnp.divide(a, b, **k)
            return rnp.divide(a, b, out=out, where=where, **k)
        shape = rnp.broadcast_shapes(rnp.shape(a), rnp.shape(b), rnp.shape(out) if out is not None else (), rnp.shape(where) if where is not True else ())
        A = rnp.broadcast_to(rnp.asarray(a, dtype=object), shape)
        B = rnp.broadcast_to(rnp.asarray(b, dtype=object), shape)
        Wh = None if where is True else rnp.broadcast_to(rnp.asarray(where, dtype=object), shape)
        res = rnp.empty(shape, dtype=object)
        for idx in rnp.ndindex(shape):
            if Wh is None:
                res[idx] = _div(A[idx], B[idx])
            else:
                w = Wh[idx]
                wt = SB.lift(w).t
                with ctx.guarded(wt):
                    q = _div(A[idx], B[idx])
                if out is None:
                    raise Unsupported("np.divide(where=) without out= reads uninitialised memory")
                res[idx] = ite(wt, q, out[idx])
        res = res.view(SymNd)
        if out is not None and isinstance(out, rnp.ndarray) and out.dtype == object:
            out[...] = res
            return out
        return res if shape else res[()]

    true_divide = divide

    def where(self, c, a=None, b=None):
        if a is None:
            if has_sym(c):
                raise SymbolicBranch("np.where(cond) with symbolic cond")
            return rnp.where(c)
        if has_sym(c) or has_sym(a) or has_sym(b):
            return _map(lambda cc, x, y: ite(cc if is_sym(cc) else bool(cc), x, y), rnp.asarray(c, dtype=object), a, b)
        return rnp.where(c, a, b)

    def select(self, condlist, choicelist, default=0):
        if has_sym(list(condlist)) or has_sym(list(choicelist)) or has_sym(default):
            res = rnp.broadcast_to(rnp.asarray(default, dtype=object), rnp.shape(choicelist[0])).copy()
            for c, ch in reversed(list(zip(condlist, choicelist))):
                res = _map(lambda cc, x, y: ite(cc if is_sym(cc) else bool(cc), x, y), rnp.asarray(c, dtype=object), ch, res)
            return res
        return rnp.select(condlist, choicelist, default)

    def clip(self, a, lo, hi, **k):
        if has_sym(a) or has_sym(lo) or has_sym(hi):
            f = lambda e, l, h: s_min(s_max(e, l), h)
            return _map(f, a, lo, hi) if isinstance(a, rnp.ndarray) else f(a, lo, hi)
        return rnp.clip(a, lo, hi, **k)

    def maximum(self, a, b):
        if has_sym(a) or has_sym(b):
            return _map(s_max, a, b) if isinstance(a, rnp.ndarray) or isinstance(b, rnp.ndarray) else s_max(a, b)
        return rnp.maximum(a, b)

    def minimum(self, a, b):
        if has_sym(a) or has_sym(b):
            return _map(s_min, a, b) if isinstance(a, rnp.ndarray) or isinstance(b, rnp.ndarray) else s_min(a, b)
        return rnp.minimum(a, b)

    # ---- reductions ---------------------------------------------------------
    def sum(self, a, axis=None, **k):
        if isinstance(a, rnp.ndarray) and a.dtype == object:
            r = rnp.asarray(a).sum(axis=axis)
            return r.view(SymNd) if isinstance(r, rnp.ndarray) else r
        return rnp.sum(a, axis=axis, **k)

    def mean(self, a, axis=None, **k):
        if isinstance(a, rnp.ndarray) and a.dtype == object:
            return a.view(SymNd).mean(axis=axis, **k)
        return rnp.mean(a, axis=axis, **k)

    def all(self, a, **k):
        if has_sym(a):
            return a.view(SymNd).all() if isinstance(a, rnp.ndarray) else a
        return rnp.all(a, **k)

    def any(self, a, **k):
        if has_sym(a):
            return a.view(SymNd).any() if isinstance(a, rnp.ndarray) else a
        return rnp.any(a, **k)

    def min(self, a, **k):
        if has_sym(a):
            r = None
            for e in rnp.asarray(a, dtype=object).flat:
                r = e if r is None else s_min(r, e)
            return r
        return rnp.min(a, **k)

    def max(self, a, **k):
        if has_sym(a):
            r = None
            for e in rnp.asarray(a, dtype=object).flat:
                r = e if r is None else s_max(r, e)
            return r
        return rnp.max(a, **k)

    amin, amax = min, max

    def errstate(self, **k):
        return rnp.errstate(**k)

    def searchsorted(self, a, v, side="left", **k):
        if has_sym(a) or has_sym(v):
            # decided element by element (forks in fork mode): index = number of entries below v
            def one(x):
                n = 0
                for e in a:
                    below = (e < x) if side == "left" else (e <= x)
                    if bool(below):
                        n += 1
                    else:
                        break
                return n
            if isinstance(v, (list, tuple)):
                v = rnp.array(list(v), dtype=object)
            if isinstance(v, rnp.ndarray):
                if v.shape == ():
                    return rnp.int64(one(v[()]))
                return rnp.array([one(x) for x in v.reshape(-1)], dtype=rnp.int64).reshape(v.shape)
            return rnp.int64(one(v))
        return rnp.searchsorted(a, v, side=side, **k)

    def finfo(self, dt=float):
        return rnp.finfo(_real_dtype(dt))

    def iinfo(self, dt=int):
        return rnp.iinfo(_real_dtype(dt))

    def dtype(self, dt, *a, **k):
        return rnp.dtype(_real_dtype(dt), *a, **k)

    def isclose(self, a, b, rtol=1e-05, atol=1e-08, **k):
        if has_sym(a) or has_sym(b):
            def f(x, y):
                x, y = plain(x), plain(y)
                d = abs(x - y) if not isinstance(x - y, SC) else abs(SC.lift(x - y))
                return d <= abs(y) * rtol + atol
            if isinstance(a, rnp.ndarray) or isinstance(b, rnp.ndarray):
                return _map(f, a, b)
            return f(a, b)
        return rnp.isclose(a, b, rtol=rtol, atol=atol, **k)

    def allclose(self, a, b, rtol=1e-05, atol=1e-08, **k):
        if has_sym(a) or has_sym(b):
            r = self.isclose(a, b, rtol=rtol, atol=atol)
            return r.all() if isinstance(r, rnp.ndarray) else r
        return rnp.allclose(a, b, rtol=rtol, atol=atol, **k)

    def array_equal(self, a, b, **k):
        if has_sym(a) or has_sym(b):
            if rnp.shape(a) != rnp.shape(b):
                return False
            r = _map(lambda x, y: plain(x) == plain(y), rnp.asarray(a, dtype=object), rnp.asarray(b, dtype=object))
            return r.all()
        return rnp.array_equal(a, b, **k)

    def count_nonzero(self, a, **k):
        if has_sym(a):
            return sum(ite(SymNd._truth(e), 1, 0) for e in rnp.asarray(a, dtype=object).flat)
        return rnp.count_nonzero(a, **k)

    def moveaxis(self, a, s, d):
        r = rnp.moveaxis(a, s, d)
        return r.view(SymNd) if isinstance(a, rnp.ndarray) and a.dtype == object else r


def _iscomplex(dt):
    dt = _real_dtype(dt)
    try:
        return rnp.issubdtype(rnp.dtype(dt), rnp.complexfloating)
    except TypeError:
        return dt is complex


def _finite_of(e):
    return SB(z3.BoolVal(True))


def _div(a, b):
    a, b = plain(a), plain(b)
    if isinstance(b, SC) and not isinstance(a, SC):
        a = SC.lift(a)
    return a / b


def _isinf(v):
    return isinstance(v, (float, rnp.floating)) and _math.isinf(float(v))


def s_min(a, b):
    if _isinf(a) and is_sym(b):
        return b if a > 0 else a
    if _isinf(b) and is_sym(a):
        return a if b > 0 else b
    if is_sym(a) or is_sym(b):
        return ite(SR(toreal(tz(a))) <= SR(toreal(tz(b))), a, b)
    return min(a, b)


def s_max(a, b):
    if _isinf(a) and is_sym(b):
        return b if a < 0 else a
    if _isinf(b) and is_sym(a):
        return a if b < 0 else b
    if is_sym(a) or is_sym(b):
        return ite(SR(toreal(tz(a))) >= SR(toreal(tz(b))), a, b)
    return max(a, b)


class _Uninit:
    """np.empty: reading an element that was never written is a defect of the code under test."""
    @staticmethod
    def mark(a):
        return a


def sym_det(M):
    M = [[SC.lift(plain(v)) if isinstance(plain(v), SC) or isinstance(v, (complex, rnp.complexfloating)) else plain(v) for v in row] for row in M]
    n = len(M)
    if n == 1:
        return M[0][0]
    if n == 2:
        return M[0][0] * M[1][1] - M[0][1] * M[1][0]
    tot = None
    for c in range(n):
        minor = [row[:c] + row[c + 1:] for row in M[1:]]
        term = M[0][c] * sym_det(minor)
        term = term if c % 2 == 0 else -term
        tot = term if tot is None else tot + term
    return tot


class _Linalg:
    def __init__(self, np_):
        self._np = np_

    def det(self, a):
        if has_sym(a):
            a = rnp.asarray(a, dtype=object)
            if a.ndim == 2:
                return sym_det([list(r) for r in a])
            if a.ndim == 3:
                return oarr([sym_det([list(r) for r in a[k]]) for k in range(a.shape[0])])
            raise Unsupported("det of a %d-D symbolic array" % a.ndim)
        return rnp.linalg.det(a)

    def __getattr__(self, n):
        o = self._np.__dict__.get("_over", {})
        if "linalg_" + n in o:
            return o["linalg_" + n]
        return getattr(rnp.linalg, n)


# ----------------------------------------------------------------------------- math shim
class MathShim:
    pi = _math.pi
    e = _math.e
    inf = _math.inf

    def __getattr__(self, n):
        return getattr(_math, n)

    @staticmethod
    def cos(x): return s_cos(x) if is_sym(x) else _math.cos(x)
    @staticmethod
    def sin(x): return s_sin(x) if is_sym(x) else _math.sin(x)
    @staticmethod
    def sqrt(x): return s_sqrt(x) if is_sym(x) else _math.sqrt(x)
    @staticmethod
    def ceil(x): return x.ceil() if isinstance(x, SR) else _math.ceil(x)
    @staticmethod
    def floor(x): return x.floor() if isinstance(x, SR) else _math.floor(x)
    @staticmethod
    def log(x, *b):
        if is_sym(x):
            if b:
                raise Unsupported("log with base")
            return x.log()
        return _math.log(x, *b)
    @staticmethod
    def log10(x): return x.log10() if is_sym(x) else _math.log10(x)
    @staticmethod
    def exp(x): return s_exp(x) if is_sym(x) else _math.exp(x)
    @staticmethod
    def isfinite(x): return True if is_sym(x) else _math.isfinite(x)
    @staticmethod
    def fabs(x): return abs(x)


# ----------------------------------------------------------------------------- builtins
def _conv_float(x=0.0):
    if hasattr(x, "_symx_float"):
        return x._symx_float()
    if isinstance(x, AR):
        return x.rational()
    if isinstance(x, SR):
        return SR(toreal(x.t))
    if is_sym(x):
        raise Unsupported("float(%s)" % type(x).__name__)
    if isinstance(x, rnp.ndarray) and x.dtype == object and x.size == 1:
        return _conv_float(x.item())
    return _bi.float(x)


def _conv_int(x=0, *a):
    if isinstance(x, SR):
        s = z3.simplify(x.t)
        if z3.is_int_value(s):
            return s.as_long()
        return x.trunc()
    if isinstance(x, rnp.ndarray) and x.dtype == object and x.size == 1:
        return _conv_int(x.item())
    return _bi.int(x, *a)


def b_round(x, nd=None):
    if isinstance(x, SR):
        return x.round_half_even()
    return _bi.round(x, nd) if nd is not None else _bi.round(x)


def _conv_complex(re=0, im=0):
    # harness-defined sample objects (e.g. (finite?, value) pairs) convert through their value
    re = re._symx_value() if hasattr(re, "_symx_value") else re
    im = im._symx_value() if hasattr(im, "_symx_value") else im
    if is_sym(re) or is_sym(im):
        if isinstance(re, SC):
            return re
        return SC(plain(re) if is_sym(re) else SR(toreal(rv(re))), plain(im) if is_sym(im) else SR(toreal(rv(im))))
    return _bi.complex(re, im)


class _NumMeta(type):
    """the sym-aware stand-ins for float / int / complex are CLASSES: calling them converts (proxies stay proxies), and
    isinstance / issubclass treat them as the types they replace, with proxies passing for numbers"""
    def __call__(cls, *a, **k):
        return cls._conv(*a, **k)

    def __instancecheck__(cls, o):
        return _bi.isinstance(o, cls._real) or cls._proxy(o)

    def __subclasscheck__(cls, c):
        return _bi.issubclass(c, cls._real)


class b_float(float, metaclass=_NumMeta):
    _real = float
    _conv = staticmethod(_conv_float)
    _proxy = staticmethod(lambda o: _bi.isinstance(o, (SR, AR)))


class b_int(int, metaclass=_NumMeta):
    _real = int
    _conv = staticmethod(_conv_int)
    _proxy = staticmethod(lambda o: _bi.isinstance(o, SR) and z3.is_int(o.t))


class b_complex(complex, metaclass=_NumMeta):
    _real = complex
    _conv = staticmethod(_conv_complex)
    _proxy = staticmethod(lambda o: _bi.isinstance(o, SC))


def b_min(*a, **k):
    if len(a) == 1:
        a = tuple(a[0])
    if any(is_sym(x) for x in a):
        r = a[0]
        for e in a[1:]:
            r = s_min(r, e)
        return r
    return _bi.min(*a, **k)


def b_max(*a, **k):
    if len(a) == 1:
        a = tuple(a[0])
    if any(is_sym(x) for x in a):
        r = a[0]
        for e in a[1:]:
            r = s_max(r, e)
        return r
    return _bi.max(*a, **k)


def b_abs(x):
    return s_abs(x) if is_sym(x) else _bi.abs(x)


def b_isinstance(o, t):
    # proxies pass for the numeric types they stand for
    if is_sym(o):
        ts = t if isinstance(t, tuple) else (t,)
        if isinstance(o, SR) and any(x in (float, int, rnp.floating, rnp.integer) or (isinstance(x, type) and issubclass(x, (float, int, rnp.number))) for x in ts if isinstance(x, type)):
            return True
        if isinstance(o, SC) and any(x in (complex, rnp.complexfloating) for x in ts):
            return True
    return _bi.isinstance(o, t)


SYM_BUILTINS = dict(float=b_float, int=b_int, round=b_round, complex=b_complex, min=b_min, max=b_max, abs=b_abs)


def make_builtins(extra=None, importer=None):
    d = dict(_bi.__dict__)
    d.update(SYM_BUILTINS)
    if extra:
        d.update(extra)
    if importer:
        real_import = _bi.__import__

        def _imp(name, globals=None, locals=None, fromlist=(), level=0):
            r = importer(name, fromlist)
            if r is not None:
                return r
            return real_import(name, globals, locals, fromlist, level)
        d["__import__"] = _imp
    return d


def clone(f, builtins_extra=None, importer=None, **over):
    """the same code object as f, with module-level names redirected"""
    f = getattr(f, "py_func", f)
    g = dict(f.__globals__)
    g.update(over)
    g["__builtins__"] = make_builtins(builtins_extra, importer)
    c = types.FunctionType(f.__code__, g, f.__name__, f.__defaults__, f.__closure__)
    c.__kwdefaults__ = f.__kwdefaults__
    c.__symx_clone_of__ = f
    return c


class SymDict(dict):
    """dict whose keys may be (tuples of) symbolic values: membership and lookup compare the key with every stored key
    (forking on the comparison in fork mode), so module-level memo tables keep working on symbolic runs"""

    def __init__(self, *a, **k):
        dict.__init__(self, *a, **k)
        self._sym = []       # [(key, value)] for keys that are not hashable

    @staticmethod
    def _issym(key):
        return is_sym(key) or (isinstance(key, tuple) and any(SymDict._issym(x) for x in key))

    @staticmethod
    def _same(a, b):
        if isinstance(a, tuple) or isinstance(b, tuple):
            if not (isinstance(a, tuple) and isinstance(b, tuple) and len(a) == len(b)):
                return False
            return all(SymDict._same(x, y) for x, y in zip(a, b))
        if is_sym(a) or is_sym(b):
            try:
                return bool(plain(a) == plain(b))     # symbolic comparison: decided by forking
            except TypeError:
                return False
        try:
            return a == b
        except Exception:
            return False

    def _find(self, key):
        for i, (k, v) in enumerate(self._sym):
            if SymDict._same(key, k):
                return ("s", i)
        if SymDict._issym(key):
            for k in list(dict.keys(self)):
                if SymDict._same(key, k):
                    return ("d", k)
            return None
        return ("d", key) if dict.__contains__(self, key) else None

    def __contains__(self, key):
        return self._find(key) is not None

    def __getitem__(self, key):
        f = self._find(key)
        if f is None:
            raise KeyError(key)
        return self._sym[f[1]][1] if f[0] == "s" else dict.__getitem__(self, f[1])

    def get(self, key, default=None):
        f = self._find(key)
        if f is None:
            return default
        return self._sym[f[1]][1] if f[0] == "s" else dict.__getitem__(self, f[1])

    def __setitem__(self, key, value):
        if SymDict._issym(key):
            f = self._find(key)
            if f is not None and f[0] == "s":
                self._sym[f[1]] = (key, value)
            elif f is not None:
                dict.__setitem__(self, f[1], value)
            else:
                self._sym.append((key, value))
        else:
            dict.__setitem__(self, key, value)

    def setdefault(self, key, default=None):
        if key in self:
            return self[key]
        self[key] = default
        return default

    def __len__(self):
        return dict.__len__(self) + len(self._sym)

    def pop(self, key, *d):
        f = self._find(key)
        if f is None:
            if d:
                return d[0]
            raise KeyError(key)
        if f[0] == "s":
            return self._sym.pop(f[1])[1]
        return dict.pop(self, f[1])


# ----------------------------------------------------------------------------- whole-module cloning
def clone_module(mod, overrides, subst=None, builtins_extra=None, importer=None):
    """Every function of `mod` (module level and methods of its classes) re-created over ONE shared namespace in which
    `overrides` replace module-level names.  `subst` maps id(real object) -> stand-in and is applied to module-level
    containers too (dispatch tables built at import time), so refactorings that move code into helpers or tables
    are still redirected.  Returns the namespace (classes are subclasses carrying the cloned methods)."""
    subst = dict(subst or {})
    G = dict(mod.__dict__)
    G["__builtins__"] = make_builtins(builtins_extra, importer)
    for name, obj in overrides.items():
        if name in mod.__dict__:
            subst.setdefault(id(mod.__dict__[name]), obj)
        G[name] = obj

    def re(f):
        f0 = getattr(f, "py_func", f)
        c = types.FunctionType(f0.__code__, G, f0.__name__, f0.__defaults__, f0.__closure__)
        c.__kwdefaults__ = f0.__kwdefaults__
        c.__dict__.update(getattr(f0, "__dict__", {}))
        return c

    def sub(o, depth=0):
        if id(o) in subst:
            return subst[id(o)]
        if depth > 3:
            return o
        if isinstance(o, dict):
            import copy as _cp
            if type(o) is dict:
                new = SymDict()        # module-level memo tables may be keyed by symbolic values on a symbolic run
            else:
                new = _cp.copy(o)      # keeps the container type (OrderedDict, defaultdict ...)
                try:
                    new.clear()
                except Exception:
                    new = {}
            for k, v in o.items():
                new[sub(k, depth + 1) if not isinstance(k, (str, int, float, bool, type(None), tuple)) else k] = sub(v, depth + 1)
            return new
        if isinstance(o, list):
            return [sub(v, depth + 1) for v in o]
        if isinstance(o, tuple):
            return tuple(sub(v, depth + 1) for v in o)
        return o
    for name, obj in list(mod.__dict__.items()):
        if name in overrides or name.startswith("__"):
            continue
        f0 = getattr(obj, "py_func", None) or obj
        if isinstance(f0, types.FunctionType) and f0.__module__ == mod.__name__:
            G[name] = re(obj)
            subst[id(obj)] = G[name]
        elif type(obj).__name__ == "_lru_cache_wrapper" and isinstance(getattr(obj, "__wrapped__", None), types.FunctionType) and obj.__wrapped__.__module__ == mod.__name__:
            # functools.lru_cache around a module function: the function is cloned and gets a cache of its own (same parameters)
            import functools
            try:
                params = obj.cache_parameters()
            except Exception:
                params = {"maxsize": 128, "typed": False}
            G[name] = functools.lru_cache(**params)(re(obj.__wrapped__))
            subst[id(obj)] = G[name]
    for name, obj in list(mod.__dict__.items()):
        if name in overrides or name.startswith("__"):
            continue
        if isinstance(obj, type) and obj.__module__ == mod.__name__:
            ns = {}
            # methods inherited from base classes of the SAME module are cloned too (flattened into the clone, most derived last),
            # otherwise a mixin's methods would run as the real functions over the real module namespace
            for klass in reversed([c for c in obj.__mro__ if getattr(c, "__module__", None) == mod.__name__]):
                for k, v in vars(klass).items():
                    if isinstance(v, types.FunctionType):
                        ns[k] = re(v)
                    elif isinstance(v, (staticmethod, classmethod)) and isinstance(v.__func__, types.FunctionType):
                        ns[k] = type(v)(re(v.__func__))
                    elif isinstance(v, property):
                        ns[k] = property(re(v.fget) if v.fget else None, re(v.fset) if v.fset else None)
                    elif isinstance(v, rnp.ndarray) and v.dtype.kind in "fc" and not k.startswith("__"):
                        # class-level work arrays (shared by all instances of the class -- and only of this module copy): able to hold proxies
                        key = ("classattr", id(v))
                        if key not in subst:
                            subst[key] = v.astype(object).view(SymNd)
                        ns[k] = subst[key]
                    elif type(v) in (dict, list) and not k.startswith("__"):
                        key = ("classattr", id(v))
                        if key not in subst:
                            subst[key] = sub(v)
                        ns[k] = subst[key]
            try:
                G[name] = type(obj.__name__, (obj,), ns)
            except TypeError:
                continue
            subst[id(obj)] = G[name]
    for name, obj in list(mod.__dict__.items()):
        if name in overrides or name.startswith("__"):
            continue
        if isinstance(obj, (dict, list, tuple)) and name not in ("__builtins__",):
            new = sub(obj)
            G[name] = new
    return G
