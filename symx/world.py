"""symx.world -- one harness body, two interpretations.

SymWorld : inputs are fresh symbols, the code under test is the re-globalled clone running on
           proxies, goals become SMT queries (negation must be unsat).
ConWorld : inputs are the numbers of a solver model, the code under test is the *real*
           function (compiled numba, real numpy, public API), goals are evaluated numerically.
           A `sat` answer is only reported as VIOLATION when the goal also fails here.
"""
import math, os, time, traceback, cmath
from fractions import Fraction
import numpy as rnp
import z3

from . import ctx, solve
from .proxy import SR, SC, SB, AR, Omega, Angle, plain, tz, toreal, rv, is_sym, ite as p_ite, Unsupported, SymbolicBranch
from .shim import oarr, SymNd


class Goal:
    def __init__(self, name, t, margin=None, meta=None, path=None, expect="unsat", nassume=None, nside=None):
        self.name, self.t, self.margin, self.meta, self.path, self.expect = name, t, margin, meta or {}, path or [], expect
        self.nassume = nassume   # a goal only sees the assumptions made before it (lemma pattern: goal(l); assume(l))


class _SBm(SB):
    __slots__ = ("margin",)


class SymWorld:
    sym = True

    def __init__(self, decisions=None, pending=None, feas_timeout=3.0):
        self.run = ctx.start()
        self.run.decisions = decisions
        self.run.pending = pending
        self.run.feasible = lambda ts: solve.quick_feasible(ts, feas_timeout)
        self.goals = []
        self.inputs = {}
        self.notes = []
        self.bounds = []     # extra constraints used only when asking for a replay-friendly model
        self.nice = []       # harness-supplied constraints for replay-friendly models (e.g. dyadic parameters)
        self.tiny = []       # an even smaller box used only to hunt for counterexamples when the full query is inconclusive

    # ---- inputs
    def real(self, name, lo=None, hi=None):
        v = z3.Real(name)
        self.inputs[name] = v
        if lo is not None:
            self.assume(v >= rv(lo))
        if hi is not None:
            self.assume(v <= rv(hi))
        self.bounds += [v >= -64, v <= 64]
        return SR(v)

    def int(self, name, lo=None, hi=None):
        v = z3.Int(name)
        self.inputs[name] = v
        if lo is not None:
            self.assume(v >= lo)
        if hi is not None:
            self.assume(v <= hi)
        return SR(v)

    def bool(self, name):
        v = z3.Bool(name)
        self.inputs[name] = v
        return SB(v)

    def reals(self, name, n, **k):
        return oarr([self.real("%s%d" % (name, i), **k) for i in range(n)])

    def omega(self, name="w"):
        c, s = z3.Real(name + "_c"), z3.Real(name + "_s")
        self.inputs[name + "_c"], self.inputs[name + "_s"] = c, s
        self.assume(c * c + s * s == 1)
        return Omega(SR(c), SR(s))

    def const(self, x):
        return x

    # ---- logic
    @staticmethod
    def _b(c):
        if isinstance(c, SB):
            return c.t
        if isinstance(c, z3.BoolRef):
            return c
        if isinstance(c, (bool, rnp.bool_)):
            return z3.BoolVal(bool(c))
        raise TypeError("not a condition: %r" % type(c))

    def assume(self, c):
        self.run.assumptions.append(self._b(c))

    def eq(self, a, b, margin=None):
        """margin: the size of |a-b| from which a difference counts as a clear violation (default 1/8; see margin gating)"""
        a, b = plain(a), plain(b)
        if isinstance(a, (SC, complex)) or isinstance(b, (SC, complex)):
            a, b = SC.lift(a), SC.lift(b)
            ar, br, ai, bi = toreal(tz(plain(a.re))), toreal(tz(plain(b.re))), toreal(tz(plain(a.im))), toreal(tz(plain(b.im)))
            g = _SBm(z3.And(ar == br, ai == bi))
            d = (ar - br) * (ar - br) + (ai - bi) * (ai - bi)
        else:
            ta, tb = tz(a), tz(b)
            g = _SBm(ta == tb)
            d = (toreal(ta) - toreal(tb)) * (toreal(ta) - toreal(tb))
        g.margin = d >= (z3.RealVal("1/64") if margin is None else z3.RealVal(str(Fraction(margin) ** 2)))
        return g

    def le(self, a, b): return SB(tz(plain(a)) <= tz(plain(b)))
    def lt(self, a, b): return SB(tz(plain(a)) < tz(plain(b)))
    def ge(self, a, b): return self.le(b, a)
    def gt(self, a, b): return self.lt(b, a)
    def ne(self, a, b): return SB(z3.Not(self.eq(a, b).t))
    def And(self, *cs):
        if not cs:
            return SB(True)
        ms = [getattr(c, "margin", None) for c in cs]
        if all(m is not None for m in ms):
            # conjunction of equalities: clearly violated when at least one component is off by the margin
            g = _SBm(z3.And(*[self._b(c) for c in cs]))
            g.margin = z3.Or(*ms)
            return g
        return SB(z3.And(*[self._b(c) for c in cs]))
    def Or(self, *cs): return SB(z3.Or(*[self._b(c) for c in cs])) if cs else SB(False)
    def Not(self, c): return SB(z3.Not(self._b(c)))
    def Implies(self, a, b):
        m = getattr(b, "margin", None)
        if m is not None:
            g = _SBm(z3.Implies(self._b(a), self._b(b)))
            g.margin = z3.And(self._b(a), m)
            return g
        return SB(z3.Implies(self._b(a), self._b(b)))

    def ite(self, c, a, b): return p_ite(self._b(c), a, b)

    def goal(self, name, cond, **meta):
        t = self._b(cond)
        self.goals.append(Goal(name, t, getattr(cond, "margin", None), meta, list(self.run.path), nassume=len(self.run.assumptions)))

    def aux_goal(self, name, cond, **meta):
        """a stepping stone posed over an ARBITRARY pre-state (havocked cut variables): proved = usable link of a chain; a counterexample
        that the real code does not exhibit means the cut invariant is too weak (inconclusive), never a harness error or an alarm"""
        self.goal(name, cond, **meta)
        self.goals[-1].aux = True

    def lemma(self, name, cond, **meta):
        """prove cond, then let later goals use it (the assumption is dropped again if the proof does not succeed)"""
        self.goal(name, cond, **meta)
        self.goals[-1].lemma_index = len(self.run.assumptions)
        self.assume(cond)

    def witness(self, name, cond, **meta):
        """an existential clause: the condition must be satisfiable under the assumptions"""
        self.goals.append(Goal(name, self._b(cond), None, meta, list(self.run.path), expect="sat"))

    def vc_goals(self, prefix, kinds=("div", "sqrt", "log", "index")):
        """turn the definedness conditions raised so far into goals"""
        seen = {}
        for i, (kind, g, c) in enumerate(self.run.vcs):
            if kind.split("@")[0] in kinds:
                nm = "%s/%s" % (prefix, kind if "@" in kind else "vc%d:%s" % (i, kind))
                seen[nm] = seen.get(nm, 0) + 1
                if seen[nm] > 1:
                    nm += "~%d" % seen[nm]
                self.goals.append(Goal(nm, z3.Implies(g, c), None, {"vc": str(c)[:200]}, list(self.run.path), nassume=len(self.run.assumptions)))

    def note(self, s):
        self.notes.append(s)

    # numeric helpers usable in both worlds
    def sqrt(self, a):
        from .shim import s_sqrt
        return s_sqrt(a)
    def abs(self, a): return abs(plain(a))
    def cis(self, om, k):
        """exp(i*k*omega)"""
        return Angle(om, k, True).cis()
    def cos(self, om): return om.c
    def sin(self, om): return om.s
    def num(self, x): return SR(toreal(rv(x)))
    def toint(self, a):
        return a




class ConWorld:
    sym = False

    def __init__(self, model, rtol=1e-6, atol=1e-9):
        self.model = model
        self.goals = {}
        self.rtol, self.atol = rtol, atol
        self.failed_assumptions = 0
        self.notes = []
        self.witness_mode = False

    def _get(self, name, default=0, lo=None, hi=None, integer=False):
        v = self.model.get(name)
        if v is not None:
            return v
        if default is not None and lo is None and hi is None and default != 0:
            return Fraction(default)
        # a variable the solver left unconstrained: use a generic (deterministic pseudo-random) value, not 0
        import hashlib
        h = int(hashlib.sha1(name.encode()).hexdigest()[:8], 16)
        g = Fraction((h % 129) - 64, 16) if not integer else Fraction((h % 9) + 1)
        if lo is not None and g < Fraction(lo):
            g = Fraction(lo) + abs(g) % 3
        if hi is not None and g > Fraction(hi):
            g = Fraction(hi) if lo is None else (Fraction(lo) + Fraction(hi)) / 2
        if integer:
            g = Fraction(int(g))
        return g

    def real(self, name, lo=None, hi=None): return float(self._get(name, None, lo, hi))
    def int(self, name, lo=None, hi=None): return int(self._get(name, None, lo, hi, integer=True))
    def bool(self, name): return bool(self._get(name))
    def reals(self, name, n, **k): return rnp.array([self.real("%s%d" % (name, i), **k) for i in range(n)], dtype=rnp.float64)

    def omega(self, name="w"):
        c, s = float(self._get(name + "_c", 1)), float(self._get(name + "_s", 0))
        return math.atan2(s, c)

    def const(self, x): return x

    def assume(self, c):
        if not bool(c):
            self.failed_assumptions += 1

    def _close(self, a, b):
        a, b = complex(a), complex(b)
        if not (cmath.isfinite(a) and cmath.isfinite(b)):
            return False
        return abs(a - b) <= self.atol + self.rtol * (abs(a) + abs(b))

    def eq(self, a, b, margin=None): return self._close(a, b)
    def ne(self, a, b): return not self._close(a, b)
    def le(self, a, b): return float(a) <= float(b) + self.atol + self.rtol * (abs(a) + abs(b))
    def lt(self, a, b): return float(a) < float(b) + self.atol + self.rtol * (abs(a) + abs(b))
    def ge(self, a, b): return self.le(b, a)
    def gt(self, a, b): return self.lt(b, a)
    def And(self, *cs): return all(bool(c) for c in cs)
    def Or(self, *cs): return any(bool(c) for c in cs)
    def Not(self, c): return not bool(c)
    def Implies(self, a, b): return (not bool(a)) or bool(b)
    def ite(self, c, a, b): return a if bool(c) else b

    def goal(self, name, cond, **meta):
        self.goals[name] = (bool(cond), meta)

    def witness(self, name, cond, **meta):
        self.goals[name] = (bool(cond), meta)

    def vc_goals(self, prefix, kinds=()):
        pass

    def note(self, s): self.notes.append(s)
    def sqrt(self, a): return math.sqrt(a) if a >= 0 else float("nan")
    def abs(self, a): return abs(a)
    def cis(self, om, k): return cmath.exp(1j * k * om)
    def cos(self, om): return math.cos(om)
    def sin(self, om): return math.sin(om)
    def num(self, x): return float(x)


# ----------------------------------------------------------------------------- running one obligation
def run_obligation(fn, params, name, timeout=20.0, fork=False, max_paths=64, vacuity=True, replay=True, only=None):
    """execute fn symbolically (all paths when fork=True), discharge every goal, replay sat models.
    returns a plain dict (picklable).  An obligation written for data-independent control flow (fork=False) whose code turns out to
    branch on the data is re-run path by path (fork mode) instead of being given up."""
    out = _run_obligation(fn, params, name, timeout, fork, max_paths, vacuity, replay, only)
    if not fork and out["status"] == "unsupported" and any(n.startswith("SymbolicBranch") for n in out["notes"]):
        out2 = _run_obligation(fn, params, name, timeout, True, max(max_paths, 64), vacuity, replay, only)
        out2["notes"].insert(0, "control flow depends on symbolic data: re-run path by path (fork mode, %d paths)" % out2["paths"])
        out2["exec_s"] += out["exec_s"]
        return out2
    return out


def _run_obligation(fn, params, name, timeout=20.0, fork=False, max_paths=64, vacuity=True, replay=True, only=None):
    t0 = time.time()
    ctx._CVAL_CACHE.clear()
    out = {"name": name, "params": _jsonable(params), "goals": [], "paths": 0, "status": "ok", "notes": [], "exec_s": 0.0}
    pending = [[]] if fork else [None]
    npaths = 0
    while pending:
        dec = pending.pop()
        if npaths >= max_paths:
            out["status"] = "incomplete"
            out["notes"].append("path budget %d exhausted; %d paths not explored" % (max_paths, len(pending) + 1))
            break
        npaths += 1
        W = SymWorld(decisions=list(dec) if dec is not None else None, pending=pending)
        te = time.time()
        try:
            fn(W, **params)
        except ctx.NeedFork:
            continue
        except (Unsupported, SymbolicBranch) as e:
            out["status"] = "unsupported"
            out["notes"].append("%s: %s" % (type(e).__name__, str(e)[:300]))
            out["goals"].append({"goal": "<encode>", "verdict": "unknown", "reason": "%s: %s" % (type(e).__name__, str(e)[:200])})
            continue
        except Exception as e:
            # the code under test raised on symbolic inputs: an uncaught exception is itself a finding candidate,
            # but it may equally be an encoder limitation -> try to reproduce concretely at a generic point
            out["goals"].append(_exception_goal(fn, params, W, e))
            continue
        finally:
            out["exec_s"] += time.time() - te
        out["notes"] += W.notes + W.run.log
        base = W.run.assumptions + W.run.side
        if vacuity:
            r = solve.check(base + W.run.path, timeout=min(timeout, 5.0), want_model=False, portfolio=False)
            if r["verdict"] == "unknown":
                # definitional side constraints (sqrt, algebraic constants) are total; retry on the preconditions alone
                r2 = solve.check(W.run.assumptions + W.run.path, timeout=min(timeout, 10.0), want_model=False, portfolio=False)
                if r2["verdict"] == "sat":
                    r = dict(r2, verdict="sat", note="modulo definitional side constraints")
            if r["verdict"] == "unsat":
                if dec in (None, []):
                    out["goals"].append({"goal": "<reachability>", "verdict": "vacuous", "time": r["time"]})
                    out["status"] = "vacuous"
                continue
            out["goals"].append({"goal": "<reachability>" + ("" if not dec else "#p%d" % npaths), "verdict": "reachable" if r["verdict"] == "sat" else "reach-unknown", "time": r["time"], "trivial": True})
        import fnmatch as _fn
        W.dead = set()
        sel = [(getattr(g, "lemma_index", None) is None) and (not only or any(_fn.fnmatch(g.name, pat) for pat in only)) for g in W.goals]
        last_sel = max([i for i, s_ in enumerate(sel) if s_], default=-1)
        for gi, g in enumerate(W.goals):
            li = getattr(g, "lemma_index", None)
            if li is None and not sel[gi]:
                continue
            if li is not None and (gi > last_sel or not any(sel[gi + 1:])):
                W.dead.add(li)
                continue
            rec = _discharge(fn, params, W, g, base, timeout, replay, npaths if fork else None)
            if li is not None and rec["verdict"] != "holds":
                W.dead.add(li)       # an unproved lemma is not available to later goals
            out["goals"].append(rec)
    out["paths"] = npaths
    out["wall_s"] = round(time.time() - t0, 3)
    return out


def _discharge(fn, params, W, g, base, timeout, replay, pathno):
    gname = g.name if pathno is None else "%s#p%d" % (g.name, pathno)
    rec = {"goal": gname, "meta": _jsonable(g.meta), "expect": g.expect}
    dead = getattr(W, "dead", set())
    q = ([a for i, a in enumerate(W.run.assumptions[:g.nassume]) if i not in dead] + W.run.side if g.nassume is not None else base) + g.path
    if g.expect == "sat":
        r = solve.check(q + [g.t], timeout=timeout, inputs=W.inputs)
        rec.update(verdict={"sat": "holds", "unsat": "violated", "unknown": "unknown"}[r["verdict"]], time=r["time"], engine=r["engine"], size=r["size"], hash=r["hash"])
        if r["verdict"] == "unsat":
            # the clause "there is an input that ..." is false for the encoded code; confirm numerically on a generic point
            rec["confirmed"] = _confirm_witness_absent(fn, params, g, W)
        return rec
    s = z3.simplify(g.t)
    if z3.is_true(s):
        solve.STATS["trivial"] += 1
        rec.update(verdict="holds", time=0.0, engine="simplifier", trivial=True)
        return rec
    r = solve.check(q + [z3.Not(g.t)], timeout=timeout, inputs=W.inputs)
    rec.update(time=r["time"], engine=r["engine"], size=r["size"], hash=r["hash"])
    if r["verdict"] == "unsat":
        rec["verdict"] = "holds"
    elif r["verdict"] == "unknown" and not ((W.nice or W.tiny) and _bug_hunt(W, g, q, timeout, rec, fn, params, replay)):
        rec["verdict"] = "unknown"
    elif r["verdict"] == "unknown":
        pass    # _bug_hunt found and replayed a counterexample in the bounded box
    else:
        raw = r["model"] or {}
        rec["model"] = {k: _fr(v) for k, v in raw.items() if "!" not in k}
        if replay:
            rec["verdict"] = "unconfirmed"

            def _try(mdl):
                ok, info = replay_goal(fn, params, mdl, g.name)
                rec["replay"] = info
                if ok:
                    rec["verdict"] = "violated"
                    rec["model"] = {k: _fr(v) for k, v in mdl.items() if "!" not in k}
                return ok

            def _small(mdl):
                return all(abs(v) <= 10 ** 4 for k, v in mdl.items() if "!" not in k and isinstance(v, Fraction))
            is_lemma = getattr(g, "lemma_index", None) is not None or getattr(g, "aux", False)
            done = False
            if g.margin is not None and W.bounds:
                # an equality goal: is there a CLEAR violation (difference >= 1/64) for inputs of ordinary size (|v| <= 64)?
                rm = solve.check(q + [g.margin] + W.bounds, timeout=min(timeout, 10.0), inputs=W.inputs, portfolio=False)
                if rm["verdict"] == "unsat":
                    # only differences below the margin exist in the box: a rounding-level artefact of constants that are doubles in
                    # the code (e.g. a numerically computed basis), not a violation -- reported as inconclusive, never as VIOLATION
                    rec["verdict"] = "unknown"
                    rec["reason"] = "lhs != rhs is satisfiable only with differences below 1/64 for inputs bounded by 64 (rounding-level constants)"
                    done = True
                elif rm["verdict"] == "sat" and rm["model"]:
                    done = _try(rm["model"])
            if not done and rec["verdict"] != "unknown":
                cands = ([raw] if _small(raw) else [])
                for extra in ([W.nice + W.bounds] if W.nice else []) + ([W.bounds] if W.bounds else []) + ([W.nice] if W.nice else []):
                    if any(_try(c) for c in cands):
                        break
                    cands = []
                    r2 = solve.check(q + [z3.Not(g.t)] + list(extra), timeout=min(timeout, 10.0), inputs=W.inputs, portfolio=False)
                    if r2["verdict"] == "sat" and r2["model"]:
                        cands = [r2["model"]]
                else:
                    any(_try(c) for c in cands)
                if rec["verdict"] == "unconfirmed" and not _small(raw) and not W.nice:
                    _try(raw)
                if rec["verdict"] == "unconfirmed":
                    # a model in generic position (all real inputs distinct and non-zero): the solver's first model often sits on a
                    # degenerate point (zeros, equal channels) where a wrong code path still returns the right numbers
                    reals = [v for v in W.inputs.values() if z3.is_real(v)]
                    if 2 <= len(reals) <= 64:
                        gp = [z3.Distinct(*reals)] + [v != 0 for v in reals]
                        r3 = solve.check(q + [z3.Not(g.t)] + gp + list(W.bounds), timeout=min(timeout, 10.0), inputs=W.inputs, portfolio=False)
                        if r3["verdict"] == "sat" and r3["model"]:
                            _try(r3["model"])
            if is_lemma and rec["verdict"] == "unconfirmed" and ((rec.get("replay") or {}).get("note") == "goal not reached concretely" or getattr(g, "aux", False)):
                rec["verdict"] = "unknown"
                rec["reason"] = "lemma not provable (sat), dropped"
        else:
            rec["verdict"] = "sat-noreplay"
    return rec


def _bug_hunt(W, g, q, timeout, rec, fn, params, replay):
    """the full query was inconclusive: look for a counterexample inside the harness's 'nice' bounded box
    (a sat answer there is a genuine counterexample; unsat/unknown there proves nothing and is not reported as success)"""
    for box in ([W.tiny] if W.tiny else []) + [W.nice + W.bounds]:
        r3 = solve.check(q + [z3.Not(g.t)] + list(box), timeout=max(5.0, timeout / 2), inputs=W.inputs)
        if r3["verdict"] != "sat" or not r3["model"] or not replay:
            continue
        ok, info = replay_goal(fn, params, r3["model"], g.name)
        if ok:
            rec.update(verdict="violated", replay=info, model={k: _fr(v) for k, v in r3["model"].items() if "!" not in k}, engine=(r3["engine"] or "") + " (bounded box)")
            return True
    return False


def _snapshot_module_state():
    """module- and class-level containers of the package under test (memo tables, registries): a replay runs the REAL code in this
    process and must not leave anything behind that a later symbolic path (whose module clone copies these containers) would see"""
    import sys
    snap = []
    for mn, m in list(sys.modules.items()):
        if m is None or not (mn == "speckit" or mn.startswith("speckit.")):
            continue
        holders = [m] + [v for v in vars(m).values() if isinstance(v, type) and getattr(v, "__module__", None) == mn]
        for h in holders:
            for k, v in list(vars(h).items()):
                if k.startswith("__") or type(v) not in (dict, list, set):
                    continue
                try:
                    snap.append((v, type(v)(v)))
                except Exception:
                    pass
    return snap


def _restore_module_state(snap):
    for live, saved in snap:
        try:
            if type(live) is list:
                live[:] = saved
            else:
                live.clear(); live.update(saved)
        except Exception:
            pass


def replay_goal(fn, params, model, goal_name):
    """run the harness body on the real stack with the model's numbers; True when the goal fails there too"""
    Wc = ConWorld(model)
    snap = _snapshot_module_state()
    try:
        fn(Wc, **params)
    except Exception as e:
        _restore_module_state(snap)
        # the real code raises on this input: for a 'never raises' goal that confirms it -- but only when it is the same
        # exception the symbolic run met (anything else is the harness or a stub failing, i.e. an encoder problem)
        info = {"raised": "%s: %s" % (type(e).__name__, str(e)[:300])}
        same = goal_name.startswith("<exception:%s>" % type(e).__name__)
        return (goal_name.endswith("noraise") or same), info
    _restore_module_state(snap)
    if goal_name not in Wc.goals and getattr(Wc, "resolver", None) is not None:
        v = Wc.resolver(goal_name)
        if v is not None:
            Wc.goals[goal_name] = (bool(v), {})
    if goal_name not in Wc.goals:
        return False, {"note": "goal not reached concretely"}
    ok, meta = Wc.goals[goal_name]
    return (not ok), {"concrete_goal_value": ok, "failed_assumptions": Wc.failed_assumptions}


def _in_harness(exc):
    """the exception was raised by a statement of the checking machinery itself (/verif), not by the code under test or a library it calls"""
    from .proxy import ContractViolation
    if isinstance(exc, ContractViolation):
        return False
    tb = exc.__traceback__
    last = None
    while tb is not None:
        last = tb
        tb = tb.tb_next
    fn_ = last.tb_frame.f_code.co_filename if last is not None else ""
    root = os.path.dirname(os.path.dirname(os.path.abspath(__file__)))
    return os.path.abspath(fn_).startswith(root + os.sep)


def _exception_goal(fn, params, W, e):
    tb = traceback.format_exc(limit=6)
    if _in_harness(e):
        # a bug of the harness or of the engine: never a finding candidate
        return {"goal": "<exception:%s>" % type(e).__name__, "verdict": "encoder-error", "reason": "raised inside the checking machinery: %s: %s" % (type(e).__name__, str(e)[:300]), "trace": tb[-1500:]}
    rec = {"goal": "<exception:%s>" % type(e).__name__, "verdict": "unknown", "reason": "%s: %s" % (type(e).__name__, str(e)[:300]), "trace": tb[-1500:]}
    # reproduce on a generic concrete input satisfying the assumptions
    try:
        r = solve.check(W.run.assumptions + W.run.side + W.run.path + W.bounds, timeout=10.0, inputs=W.inputs, portfolio=False)
        if r["verdict"] == "sat":
            ok, info = replay_goal(fn, params, r["model"] or {}, "<exception:%s>" % type(e).__name__)
            rec["replay"] = info
            if ok and "raised" in info:
                rec["verdict"] = "violated"
                rec["model"] = {k: _fr(v) for k, v in (r["model"] or {}).items() if "!" not in k}
            else:
                rec["verdict"] = "encoder-error"
    except Exception as e2:  # pragma: no cover
        rec["reason"] += " | replay failed: %s" % e2
    return rec


def _confirm_witness_absent(fn, params, g, W):
    import random
    rng = random.Random(12345)
    for _ in range(5):
        model = {n: Fraction(rng.randint(-40, 40), 8) for n in W.inputs}
        Wc = ConWorld(model)
        try:
            fn(Wc, **params)
        except Exception:
            continue
        if g.name in Wc.goals and Wc.goals[g.name][0]:
            return False   # a concrete witness exists -> the encoding is wrong
    return True


def _fr(v):
    if isinstance(v, Fraction):
        return str(v) if abs(v.denominator) < 10**12 else repr(float(v))
    return v


def _jsonable(o):
    if isinstance(o, dict):
        return {str(k): _jsonable(v) for k, v in o.items()}
    if isinstance(o, (list, tuple)):
        return [_jsonable(v) for v in o]
    if isinstance(o, (int, float, str, bool)) or o is None:
        return o
    if isinstance(o, Fraction):
        return str(o)
    if isinstance(o, rnp.ndarray):
        return _jsonable(o.tolist())
    if isinstance(o, (rnp.integer,)):
        return int(o)
    if isinstance(o, (rnp.floating,)):
        return float(o)
    return repr(o)[:120]
