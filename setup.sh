#!/bin/bash
# Build the overlay virtualenv used by every check (offline; wheels from /opt/veriftools/wheels).
# Idempotent: ./check calls it when .venv is missing.
set -e
cd "$(dirname "$0")"
if [ -x .venv/bin/python ] && .venv/bin/python -c "import z3, numpy, numba" 2>/dev/null; then exit 0; fi
rm -rf .venv
/venv/bin/python -m venv .venv
SP=$(.venv/bin/python -c "import site; print(site.getsitepackages()[0])")
printf '/venv/lib/python3.12/site-packages\n' > "$SP/_overlay.pth"
PIP_NO_INDEX=1 .venv/bin/pip install -q --no-index --find-links /opt/veriftools/wheels z3-solver cvc5 crosshair-tool >/dev/null 2>&1 || \
PIP_NO_INDEX=1 .venv/bin/pip install -q --no-index --find-links /opt/veriftools/wheels z3-solver
.venv/bin/python -c "import z3; print('z3', z3.get_version_string())"
