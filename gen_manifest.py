#!/usr/bin/env python3
"""Regenerates MANIFEST.json from the table below (kept next to the harnesses so that the two stay in step)."""
import json, os

ROOT = os.path.dirname(os.path.abspath(__file__))
TECH = "symbolic execution of the real code objects + SMT (z3/cvc5), sat models replayed on the real build"

CHECKS = {
    "C01": dict(
        text="Bounded symbolic verification: all 18 backend functions (Numba py_func, NumPy fallbacks, CUDA host wrapper + kernel through a one-thread-per-index launcher) are executed on symbolic records, windows and analysis angle and the solver shows each of the five statistics equal to the directly evaluated windowed DFT for every input within the stated shapes (quick: L<=4, K<=2; thorough: L<=8, K<=3). Unit tests compare |X|^2 on one record and never run the CUDA code or look at Im{XY}.",
        note="Reals stand for binary64 (rounding budget outside the claim); numba/LLVM/PTX code generation trusted (py_func semantics encoded, counterexamples replayed on the compiled kernels and numba's CUDA simulator); np.linalg.qr replaced by exact Gram-Schmidt; shapes beyond the bounds not covered.",
        ref="DESIGN.md section 4 C01"),
    "C02": dict(
        text="Bounded symbolic verification of one scheduler iteration from an ARBITRARY loop state (so plans of any length and any Jdes are covered): the current source of ltf_plan/lpsd_plan/vectorized_ltf_plan/new_ltf_plan is interpreted with if-then-else state merging over symbolic N (unbounded), fs, olap, bmin, Lmin, Jdes, Kdes; the solver shows no division by zero / sqrt of a negative, max(1,Lmin)<=L<=N, K>=1, K=navg=len(D), K=1=>L=N, every start in [0,N-L], first start 0, strictly increasing, last start N-L (generic k-th start from the proved loop invariant; generic-element arange for the vectorised code; literal unrolling for N<=12/24 with an unwinding assertion); SpectrumAnalyzer.plan() is executed in fork mode on symbolic plans satisfying exactly those post-conditions and never raises; the scheduler given by NAME is resolved by the constructor's own code and plan() runs at N=64 with a symbolic Lmin (LPSD is exempt from Lmin). Every obligation also exists after a prior plan in the same process (module-level state must not leak); the last iterations of ltf/lpsd are executed path by path from a state within 3 fs/N of the end of the band (bins emitted in bulk, early exits); the thorough tier explores whole plans at N=8 path by path. The tests run three schedulers on one configuration.",
        note="Exact reals (IEEE ties outside); (N/2)**(1/Jdes) is an uninterpreted application with stated facts and the vectorised lookup grid is a generic adjacent pair; every sat model is replayed by running the real scheduler and SpectrumAnalyzer.plan() on the model's configuration family and checking every bin; new_ltf_plan has open known findings (F5a-d) and its heavier obligations run in the thorough tier only.",
        ref="DESIGN.md section 4 C02"),
    "C03": dict(
        text="Same encodings as C02: for one iteration from an arbitrary state the solver shows r*L=fs, f'=f+r, r>0, f<fs/2, the stored b equals f*L/fs, f0=bmin*fs/N, b>=bmin-f/(2fs) (times 1/rho for the vectorised lookup grid), and that lpsd_plan forwards exactly its arguments with bmin=1.0, Lmin=1. N unbounded. Also after a prior plan in the same process, and for every bin emitted by one execution of the loop body near the end of the band (fork mode).",
        note="Exact reals; power and lookup-grid abstractions as in C02; replay on real plans; new_ltf_plan violates r*L=fs (known finding F5b).",
        ref="DESIGN.md section 4 C03"),
    "C04": dict(
        text="Solver-decided for one iteration from an arbitrary state: K is the integer nearest to 1+(N-L)/((1-olap)L) capped at N-L+1 (tie free), starts within half a sample of k(N-L)/(K-1), reported overlap equals the realised mean overlap (bins with 1..4 symbolic starts), unclamped-regime clauses |L-L*|<=1/2 and the Kdes-level averaging bound; find_Jdes_binary_search and plan(force_target_nf) are executed in fork mode over every return pattern of an uninterpreted scheduler: exact count or error. Monotonicity of L and K along a plan is decided as monotonicity of the step map (two independent copies of one iteration from arbitrary states fi<=fi2, N unbounded) through a three-link chain cut at the body's two rounding statements, each link proved for arbitrary values of the quantity crossing the cut (ltf, lpsd, and the lookup maps of the vectorised scheduler).",
        note="Exact reals; MIN_JDES/MAX_JDES shrunk to 8/32 values; 'within 10% of the iterative scheduler' is outside the claim; the single-query form of monotonicity (two consecutive iterations) stays `unknown` and is kept in the thorough tier only, reported as inconclusive; the chain's auxiliary links are reported as violations only when a real plan of the model's configuration is non-monotone; thorough tier adds whole plans executed path by path at N=8.",
        ref="DESIGN.md section 4 C04"),
    "C05": dict(
        text="Symbolic verification of the wiring of compute(), _lpsd_core, compute_single_bin and the band filter: the whole analysis module is re-created over one namespace in which the 18 kernels are recorders returning fresh symbols, the window function returns a tagged symbolic array and _build_Q a tag; for plans covering every equality pattern of segment lengths (window/basis caches), every order, mode, backend (incl. auto->cuda above 1000 segments) and window kind the solver/recorder shows that bin j is produced by the right kernel with (x1[,x2], D[j], L[j], win(L[j]) -- Kaiser: length L+1, beta=alpha*pi, last sample dropped --, omega=2*pi*f[j]/fs, Q(L[j],order)), that results and window sums land in bin j, also after an earlier analysis with another window parameter or another window callable of the same name; single-bin requests with symbolic frequency on 14 (N, L|fres, olap) shapes; band edges symbolic with every feasible mask explored by forking.",
        note="The kernels themselves are C01's subject (here recorders); counterexamples are replayed by running the real compute()/compute_single_bin() on pseudo-random data against the reference estimator; single-bin segmentation is decided on the concrete shape grid, not for symbolic N/L/olap.",
        ref="DESIGN.md section 4 C05"),
    "C06": dict(
        text="Bounded symbolic verification: the real auto kernels are executed on x[n]=A cos(w0 n+phi) with symbolic amplitude, phase, frequency and an arbitrary real window, and the solver shows XX=|A/2(e^{i phi}S1+e^{-i phi}W(2w0))|^2 for every such input (hence ps=A^2/2 exactly when the image term vanishes, any L and fractional bin); the scaling laws in c are shown on all 18 kernels and, with the law in the sampling rate a, on SpectrumResult for a generic bin, also after other lazily computed attributes of the result were read first; ENBW=fs*S2/S12. Tests check ENBW>0 only.",
        note="Reals for binary64; L<=4 (quick) / 6 (thorough), K<=2; the size of the Kaiser image term is C12's subject; scheduler homogeneity in fs is C03's.",
        ref="DESIGN.md section 4 C06"),
    "C07": dict(
        text="Bounded symbolic verification through all three backends: y=g*x gives Re XY=g*XX, Im XY=0, YY=g^2 XX (hence Hxy=g, coh=1 via the SpectrumResult obligations on a generic bin); a circularly delayed channel analysed at ANY L-th root of unity gives conj(XY)=XX*exp(-i*omega*d) exactly, i.e. phase -omega*d -- the sign of the whole chain kernel->XY->Hxy. Tests check median phase error on one record with the Numba backend only.",
        note="Reals for binary64; gain L<=4,K<=2 (quick) / L<=6,K<=3; delay N=L<=4 (quick) / 6, all d<L, orders -1,0; the d/L edge effect of a linear delay is outside; code generation trusted.",
        ref="DESIGN.md section 4 C07"),
    "C08": dict(
        text="Bounded symbolic verification: for the 12 detrending functions, adding a polynomial of degree <=p with symbolic coefficients (per channel, on absolute indices) leaves all five statistics unchanged for every record/window/frequency, for L from 1 (L<=p included); a degree p+1 term (and a constant for order -1) provably can change them (satisfiable witness, each channel separately); the invariance also holds after a basis of the other order was built for the same segment length earlier in the process. The double-precision basis is compared with the exact projector to 1e-12.",
        note="Reals for binary64 ('up to rounding' is the concrete 1e-12 comparison); L<=5,K<=2 (quick) / L<=8,K<=3; np.linalg.qr replaced by exact Gram-Schmidt; order->kernel dispatch in analysis.py is C05's.",
        ref="DESIGN.md section 4 C08"),
    "C09": dict(
        text="Bounded symbolic verification of the coherence/cross-spectrum identities: SpectrumResult.__getattr__ is executed on one generic bin of symbolic statistics (zero channels included) and the solver shows coh in [0,1], |Gxy|^2<=Gxx*Gyy, GyyCx+GyyRx=Gyy, GyySx=Gyy(1-coh) and the definedness of every guarded division; the 18 kernels are executed on symbolic data to show swap symmetry, auto-in-pair equality (also with the NumPy fallbacks' chunk loop crossed: 3 segments in chunks of 2), coh=1 for K=1 and y=g*x, and Cauchy-Schwarz (K=2 direct, K=3 via the Lagrange identity in the thorough tier). Tests check none of these identities.",
        note="Reals for binary64; kernel shapes L<=3,K<=2 (quick), L<=4,K<=3 (thorough); result-level obligations assume the Cauchy-Schwarz fact that the kernel-level obligations establish; numba/CUDA code generation trusted.",
        ref="DESIGN.md section 4 C09"),
    "C10": dict(
        text="Symbolic verification of the 13 error attributes: __getattr__ runs on a generic bin (all statistics, fs and the integer n>=1 symbolic, unbounded) and the solver shows each attribute equal to the Bendat-Piersol expression written from the property text, dev=est*err, the 1/sqrt(n) law (n->4n halves), dev=est*err also after the result was plotted with a 2-sigma error band (real plot() on inert axes), and the three phase-error clauses with arcsin as an uninterpreted function constrained by u<=asin u<=(pi/2)u. Tests only compare three deviations with Monte-Carlo scatter at one configuration.",
        note="Reals for binary64; arcsin/sqrt by contract; the Monte-Carlo clause is statistical and outside the claim; assumes XX,YY>0 and 0<|XY|^2<=XX*YY (established for kernel outputs by C01/C09).",
        ref="DESIGN.md section 4 C10"),
    "C11": dict(
        text="Symbolic verification: XY_emp_var=M2/n, >=0, XY_emp_dev^2=var, G??_emp_dev=sqrt(M2/n)*2/(fs*S2), None for the other analysis type, on a generic bin (unbounded symbolic values); all 18 backend functions executed on symbolic data show M2 equal to the population variance of the per-segment cross products (0 for one segment, never negative). Tests only check finiteness.",
        note="Reals for binary64; kernel shapes L<=3,K<=2 here (C01 covers more); navg=K wiring belongs to C05; Gaussian agreement clause is statistical and outside.",
        ref="DESIGN.md section 4 C11"),
    "C12": dict(
        text="For each (L,P) of a grid the exact double-valued Kaiser window that the analyzer hands to its kernels is captured from the real compute() and compute_single_bin() code paths; |W(omega)|^2 is then a univariate polynomial in cos(omega) with rational coefficients and the solver shows, cell by cell, that for EVERY omega beyond the main lobe it is at most 10^-((P-1)/10) |W(0)|^2; both code paths must hand over the same DFT-even window kaiser(L+1, alpha*pi)[:-1].",
        note="Grid: L in {64,65,100,128} x P in {60,120,200} (quick), 7 lengths x 5 levels (thorough); other L, the image term of a real sinusoid and rounding in the recurrence are outside; np.kaiser's doubles are taken as exact rationals.",
        ref="DESIGN.md section 4 C12"),
    "C13": dict(
        text="Symbolic verification of SpectrumAnalyzer.__init__ in fork mode on records whose samples carry a symbolic finiteness flag and value, for 10 memory layouts with numpy's copy/alias rule modelled (views share memory for real): the stored channels equal 'value if finite else 0', the caller's object is never written, the result is layout independent; no backend function writes into the record or window it is given; every division and square root behind the density/coherence/transfer-function attributes (and the error bars where coherence>0) is defined on a generic bin including all-zero statistics.",
        note="Reals for binary64 (overflow outside); the copy rule of ascontiguousarray is cross-checked against real numpy on the same layouts on every run; N=3 samples per channel (quick).",
        ref="DESIGN.md section 4 C13"),
    "C14": dict(
        text="Iteration-level race freedom of the 12 parallel kernels (every array access tagged with the iteration/thread that performs it, over all K iterations: no cell written by two iterations, none read by another; all K! execution orders give the serial result on symbolic data); order-independence of the 45 lazily computed attributes (each as first access followed by all others, both directions), stored arrays never written, also across plot(); plan/compute/compute_single_bin interleavings on one analyzer repeat identically, leave record and configuration unchanged and return the cached plan (also with force_target_nf).",
        note="numba's parfor lowering and real thread counts are trusted (prange semantics); K=3 iterations, L=2 (quick); matplotlib replaced by inert stand-ins; the analyzer history uses recorder kernels (their purity is C13's read-only obligation).",
        ref="DESIGN.md section 4 C14"),
    "C15": dict(
        text="Symbolic verification of the SISO, analytic (real sympy) and numeric MISO solvers on one generic bin whose joint spectral matrix is ANY Hermitian PSD matrix with PD input block (Cholesky parametrisation): the quantity under the square root is real and equals the Schur complement (last Cholesky pivot squared), hence 0<=residual^2<=S00, zero for an exact static combination, invariant under permutation and symbolic invertible re-mixing, analytic=numeric; q=1,2 fully symbolic, q=4 with a fixed rational input block (index bookkeeping), q=3 in the thorough tier; for q<=2 also as the SECOND call of the solver in the process (same shape, unrelated earlier data).",
        note="`ltf` is a stub returning spectra drawn from one joint matrix (estimation itself is C01/C09); np.linalg.solve by Cramer's rule; np.linalg.cond -> 1 or (obligation agree/q2/ill-conditioned) 1e13 with np.linalg.pinv = inverse of a nonsingular matrix, replayed on a matrix whose real condition number exceeds 1e12 (singular matrices and pinv's rank cut-off outside); inputs of mixed dtype (integer first) must reach the estimator with their values intact; divisions encoded through one shared inverse symbol per divisor.",
        ref="DESIGN.md section 4 C15"),
    "C16": dict(
        text="Symbolic verification: every tap returned by lagrange_taps equals the textbook Lagrange weight for a symbolic fraction d (orders 1..15 and 31 in full, the outermost and central weights at orders 71 and 111; all weights up to order 111 in the thorough tier; compared on the scale of the weight itself) and the taps sum to one; timeshift() is executed on symbolic records for ANY real shift within +-(n+3) samples (integer part enumerated by value forking inside the code, fraction symbolic): interior samples equal the interpolant at n+s, integer shifts displace with held end values, zero shift is the identity, polynomial records of degree <= order are reproduced, the time-varying path agrees with the constant path; df_timeshift applies exactly seconds*fs (symbolic) to the selected numeric columns only.",
        note="Reals for binary64 (int/int constants such as j/halfp are kept exact by interpreting lagrange_taps from its source); n<=7 (quick)/9, orders<=5/9 for timeshift; np.pad/correlate/einsum/sliding_window_view are numpy's own code on object arrays; records of integer dtype are object arrays whose stores cast like numpy (IntNd).",
        ref="DESIGN.md section 4 C16"),
    "C17": dict(
        text="Symbolic verification with a symbolic random stream: the colouring cascade (real py_func) carries its state exactly over every split of <=6 samples into <=3 blocks incl. empty and single-sample blocks and equals the direct-form reference cascade; for white, red, alpha and pink generators any sequence of block requests equals one request of the total length for a twin with the same seed (with and without the settling call), same seed => same samples, different/no seed => different stream (witness), get_sample runs equal the stream prefix, two live generators consumed in interleaved patterns each deliver their own stream, a later same-seed instance reproduces the stream.",
        note="numpy's Generator being a stream and scipy.signal.lfilter's recurrence are stub contracts, validated on the real libraries at the boundary sizes on every run; for an empty input the lfilter stub returns an ARBITRARY final state (observed behaviour), which is what exposed F10; module-level block/buffer-size constants of speckit.noise (integers in [1024,2^31)) are 3 in the symbolic run and in the replay, so the code's own chunk boundaries are crossed.",
        ref="DESIGN.md section 4 C17"),
    "C18": dict(
        text="white noise: rms^2=psd*fs and draws N(0,rms); fftnoise/band_limited_noise executed on symbolic spectra, unit phasors, band edges and sample rate with the inverse FFT captured by contract (ifft and irfft): the returned real series has exactly the prescribed DFT (Hermitian, DC/Nyquist real, zero outside the band, unit magnitude inside); shaping filter: for each configuration of a grid the real constructor's coefficients are exact rationals and on every cell of [2 fmin_eff, fmax_eff/2] the solver shows the two-sided density within 1.25 dB of f^-alpha for EVERY frequency.",
        note="Configurations off the grid and the two corner octaves are outside (a first-order corner is 3*alpha/2 dB off by construction); reading of 'about 1 dB' fixed in DESIGN.md before looking at what passes; cell width is part of the tolerance.",
        ref="DESIGN.md section 4 C18"),
    "C19": dict(
        text="Symbolic verification: polynomial_detrend's residual is orthogonal to all monomials of degree<=p, a polynomial is mapped to zero, adding one changes nothing, detrending is idempotent, order 0 is mean removal, short inputs fall back (n<=6, orders<=3); integral_rms^2 equals the trapezoidal sum over the in-band grid points for symbolic grids (<=5 points), ASD values and band edges (every membership pattern by forking), power is additive at grid points, nested bands are monotone, degenerate bands give 0; get_rms and df_detrend wiring; integer index arithmetic of polynomial_detrend on a record of symbolic length n<=10^6 stays within int64 (np.arange(n) modelled as an int64 array with symbolic elements, orders 2..5).",
        note="np.polyfit is replaced by its least-squares contract (normal equations); cumulative_trapezoid is scipy's own code on object arrays; the Parseval clause is statistical and outside.",
        ref="DESIGN.md section 4 C19"),
    "C20": dict(
        text="Symbolic verification of every derived attribute against the documented function of the base estimates on a generic bin (cross and auto, zero statistics included), None rules and AttributeError for unknown names; get_measurement on 3 bins with symbolic increasing f, symbolic values and symbolic query (grid value, linearity of real/imag parts, clamping, scalar/array shape); to_dataframe's column dict for every pattern of per-bin segment counts incl. all-equal and single-bin results; __getattr__ termination on bare instances for all copy/pickle probe names (finite enumeration on the real code object) copy/deepcopy/pickle as the real standard-library protocol on symbolic instances incl. histories over two results; unwrapped phases on 2-3 bins with np.unwrap encoded by its documented algorithm, the wrapped views read after the unwrapped ones still equal those of a fresh result and stay in [-pi,pi]; the exported frame is a snapshot.",
        note="Reals for binary64; np.interp, log10, pandas by contract, atan2 by range/quadrant facts; export/protocol clauses are finite enumerations run on the clone, not solver queries (no symbolic input exists there).",
        ref="DESIGN.md section 4 C20"),
}

NOT_APPLICABLE = {
}

ALL = ["C%02d" % i for i in range(1, 21)]


def main():
    checks = []
    for pid in ALL:
        if pid not in CHECKS:
            continue
        c = CHECKS[pid]
        checks.append({
            "property_id": pid,
            "quick_cmd": "./check %s quick" % pid,
            "thorough_cmd": "./check %s thorough" % pid,
            "evidence_file": "evidence/%s.json" % pid,
            "replay_cmd_template": "./check %s --replay {path}" % pid,
            "engine": "symx",
            "level_claimed": {"category": "model_checking", "text": c["text"], "design_ref": c["ref"]},
            "level_note": c["note"],
            "technique": c.get("technique", TECH),
        })
    na = [{"property_id": p, "reason": NOT_APPLICABLE.get(p, "check not built yet in this round (planned: solver-based, see DESIGN.md section 4)")} for p in ALL if p not in CHECKS]
    m = {
        "version": 1,
        "setup_cmd": "./setup.sh",
        "hooks": {"guard": "SPECKIT_VERIF",
                  "enable": "no source hooks are needed: checks re-global the functions' own code objects at run time (./check exports SPECKIT_VERIF=1 but nothing in /repo reads it)",
                  "baseline_off_cmd": "cd /repo && /venv/bin/python -m pytest -ra -q -p no:cacheprovider --timeout=900 --continue-on-collection-errors",
                  "source_commits": [], "add_only": True},
        "engines": [{"name": "symx", "path": "symx/", "serves_properties": [c["property_id"] for c in checks],
                     "kind_free_text": "symbolic execution of the real Python code objects (re-globalled clones on z3-backed proxies through a NumPy shim; AST interpreter with state merging for branchy scalar code) + SMT portfolio (z3 5.1 API, z3 4.8.12, cvc5 1.0) + replay of every sat model on the real build"}],
        "checks": checks,
        "not_applicable": na,
        "notes": "Exit codes of ./check: 0 held (inconclusive obligations are printed and counted in the evidence), 1 replayed violation not listed in known_findings.json, 2 harness error. Fixes of genuine defects are the 'fix:' commits in /repo, listed as fixed: entries in known_findings.json.",
    }
    json.dump(m, open(os.path.join(ROOT, "MANIFEST.json"), "w"), indent=1)
    print("MANIFEST.json: %d checks, %d not_applicable" % (len(checks), len(na)))


if __name__ == "__main__":
    main()
