#!/usr/bin/env python3
"""Regenerates MANIFEST.json from the table below (kept next to the harnesses so that the two stay in step)."""
import json, os

ROOT = os.path.dirname(os.path.abspath(__file__))
TECH = "symbolic execution of the real code objects + SMT (z3/cvc5), sat models replayed on the real build"

CHECKS = {
    "C01": dict(
        text="Bounded symbolic verification: all 18 backend functions (Numba py_func, NumPy fallbacks, CUDA host wrapper + kernel through a one-thread-per-index launcher) are executed on symbolic records, windows and analysis angle and the solver shows each of the five statistics equal to the directly evaluated windowed DFT for every input within the stated shapes (quick: L<=4, K<=2; thorough: L<=8, K<=3). Unit tests compare |X|^2 on one record and never run the CUDA code or look at Im{XY}.",
        note="Reals stand for binary64 (rounding budget outside the claim); numba/LLVM/PTX code generation trusted (py_func semantics encoded, counterexamples replayed on the compiled kernels and numba's CUDA simulator); np.linalg.qr replaced by exact Gram-Schmidt; shapes beyond the bounds not covered.",
        ref="DESIGN.md section 4 C01"),
}

NOT_APPLICABLE = {
}

ALL = ["C%02d" % i for i in range(1, 21)]


def main():
    checks = []
    for pid in ALL:
        if pid not in CHECKS:
            continue
        c = CHECKS[pid]
        checks.append({
            "property_id": pid,
            "quick_cmd": "./check %s quick" % pid,
            "thorough_cmd": "./check %s thorough" % pid,
            "evidence_file": "evidence/%s.json" % pid,
            "replay_cmd_template": "./check %s --replay {path}" % pid,
            "engine": "symx",
            "level_claimed": {"category": "model_checking", "text": c["text"], "design_ref": c["ref"]},
            "level_note": c["note"],
            "technique": c.get("technique", TECH),
        })
    na = [{"property_id": p, "reason": NOT_APPLICABLE.get(p, "check not built yet in this round (planned: solver-based, see DESIGN.md section 4)")} for p in ALL if p not in CHECKS]
    m = {
        "version": 1,
        "setup_cmd": "./setup.sh",
        "hooks": {"guard": "SPECKIT_VERIF",
                  "enable": "no source hooks are needed: checks re-global the functions' own code objects at run time (./check exports SPECKIT_VERIF=1 but nothing in /repo reads it)",
                  "baseline_off_cmd": "cd /repo && /venv/bin/python -m pytest -ra -q -p no:cacheprovider --timeout=900 --continue-on-collection-errors",
                  "source_commits": [], "add_only": True},
        "engines": [{"name": "symx", "path": "symx/", "serves_properties": [c["property_id"] for c in checks],
                     "kind_free_text": "symbolic execution of the real Python code objects (re-globalled clones on z3-backed proxies through a NumPy shim; AST interpreter with state merging for branchy scalar code) + SMT portfolio (z3 5.1 API, z3 4.8.12, cvc5 1.0) + replay of every sat model on the real build"}],
        "checks": checks,
        "not_applicable": na,
        "notes": "Exit codes of ./check: 0 held (inconclusive obligations are printed and counted in the evidence), 1 replayed violation not listed in known_findings.json, 2 harness error. Fixes of genuine defects are the 'fix:' commits in /repo, listed as fixed: entries in known_findings.json.",
    }
    json.dump(m, open(os.path.join(ROOT, "MANIFEST.json"), "w"), indent=1)
    print("MANIFEST.json: %d checks, %d not_applicable" % (len(checks), len(na)))


if __name__ == "__main__":
    main()
