#!/bin/bash
# tools/seed_matrix.sh <out.tsv> <Cxx:n:checks> ...   run checks against seeded changes in a scratch worktree (never in /repo)
OUT=$1; shift
WT=${SEED_WT:-/tmp/seedrun}
[ -d $WT ] || git -C /repo worktree add -q --detach $WT HEAD
for spec in "$@"; do
  IFS=: read id n checks <<< "$spec"
  git -C $WT checkout -q -- . ; git -C $WT clean -fdq >/dev/null 2>&1
  git -C $WT apply ${SEED_OUT:-/tmp/seed/out}/$id/patch$n.diff || { echo -e "$id\t$n\t-\tPATCH-FAILS" >> $OUT; continue; }
  for c in $checks; do
    SYMX_REPO=$WT SYMX_EVIDENCE_DIR=/verif/out/try_evidence ${TIER_ENV:-} /verif/check $c ${TIER:-quick} > /verif/out/seed${SEED_TAG:-}_${id}_${n}_$c.log 2>&1; rc=$?
    nv=$(grep -c '^VIOLATION' /verif/out/seed${SEED_TAG:-}_${id}_${n}_$c.log); nh=$(grep -c '^HARNESS-ERROR' /verif/out/seed${SEED_TAG:-}_${id}_${n}_$c.log); ni=$(grep -c '^INCONCLUSIVE' /verif/out/seed${SEED_TAG:-}_${id}_${n}_$c.log)
    first=$(grep -A1 '^VIOLATION' /verif/out/seed${SEED_TAG:-}_${id}_${n}_$c.log | grep obligation | head -1 | sed 's/  obligation: //')
    echo -e "$id\t$n\t$c\texit=$rc\tviol=$nv\therr=$nh\tinconcl=$ni\t$first" >> $OUT
  done
  git -C $WT checkout -q -- .
done
