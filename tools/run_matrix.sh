#!/bin/bash
# tools/run_matrix.sh <spec-file> <out.tsv>   (spec lines: Cxx:n:check check ...)
mapfile -t SPECS < "$1"
exec "$(dirname "$0")/seed_matrix.sh" "$2" "${SPECS[@]}"
