#!/bin/bash
# tools/try_patch.sh [-R] <patch.diff> <Cxx> [<Cxx> ...]   apply a change to /repo, run the quick checks, undo it straight afterwards
REV=""
if [ "$1" = "-R" ]; then REV="-R"; shift; fi
P="$1"; shift
cd /repo || exit 2
if [ -n "$(git status --porcelain --untracked-files=no)" ]; then echo "repo not clean"; exit 2; fi
git apply $REV "$P" || { echo "patch does not apply"; exit 2; }
trap 'git -C /repo checkout -- . ' EXIT
cd /verif
export SYMX_EVIDENCE_DIR=/verif/out/try_evidence
for c in "$@"; do
  ./check $c ${TIER:-quick} > out/try_$c.log 2>&1; rc=$?
  echo "== $c exit=$rc: $(grep -c '^VIOLATION' out/try_$c.log) violations, $(grep -c '^HARNESS-ERROR' out/try_$c.log) harness errors, $(grep -c '^INCONCLUSIVE' out/try_$c.log) inconclusive"
  grep -A1 '^VIOLATION' out/try_$c.log | grep obligation | head -5
  grep '^HARNESS-ERROR' out/try_$c.log | head -3 | cut -c1-300
done
