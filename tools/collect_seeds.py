#!/usr/bin/env python3
"""NOTE: the agents' output directories under /tmp/seed were removed after the final collection; everything is kept under seeded/.
Copy confirmed seeded changes from the sub-agents' output into /verif/seeded/<id>/ with meta.json, and write seeded/MATRIX.md
from the seed-matrix TSV files (tools/seed_matrix.sh).  Round 1: /tmp/seed/out (patch1, patch2); round 2: /tmp/seed/out2 (kept as
patch3, patch4); benign refactorings: /tmp/seed/out3 (kept under seeded/benign/)."""
import json, os, re, shutil, glob
DST = "/verif/seeded"
ROUNDS = [("/tmp/seed/out", ["/tmp/seed/confirm1.log", "/tmp/seed/confirm2.log"], ["/verif/out/matrix_r1_final.tsv"], 0),
          ("/tmp/seed/out2", ["/tmp/seed/confirm_r2a.log", "/tmp/seed/confirm_r2b.log"], ["/verif/out/matrix_r2_final.tsv"], 2),
          ("/tmp/seed/out4", ["/tmp/seed/confirm_r3a.log", "/tmp/seed/confirm_r3b.log"], ["/verif/out/matrix_r3_final.tsv"], 4)]


def parse_conf(logs):
    conf = {}
    for log in logs:
        if not os.path.exists(log):
            continue
        for line in open(log):
            m = re.match(r"(C\d+)/(\d): tests_exit=(\d+) \[(.*?)\] demo_with=(\d+) demo_without=(\d+)", line)
            if m:
                conf[(m.group(1), int(m.group(2)))] = dict(tests_exit=int(m.group(3)), tests=m.group(4), demo_with_patch_exit=int(m.group(5)), demo_without_patch_exit=int(m.group(6)))
    return conf


def parse_det(pats):
    det = {}
    files = []
    for p in pats:
        files += sorted(glob.glob(p), key=os.path.getmtime)
    for tsv in files:
        for line in open(tsv):
            f = line.rstrip("\n").split("\t")
            if len(f) >= 7 and f[3].startswith("exit="):
                det.setdefault((f[0], int(f[1])), {})[f[2]] = dict(exit=f[3].split("=")[1], violations=int(f[4].split("=")[1]), harness_errors=int(f[5].split("=")[1]), inconclusive=int(f[6].split("=")[1]), first=(f[7] if len(f) > 7 else ""))
    return det


rows = []
for SRC, logs, mats, off in ROUNDS:
    conf, det = parse_conf(logs), parse_det(mats)
    for (pid, n), c in sorted(conf.items()):
        ok = c["tests_exit"] == 0 and "99 passed" in c["tests"] and c["demo_with_patch_exit"] != 0 and c["demo_without_patch_exit"] == 0
        if not ok:
            print("NOT kept (confirmation failed):", SRC, pid, n, c)
            continue
        d = os.path.join(DST, pid)
        os.makedirs(d, exist_ok=True)
        k = n + off
        shutil.copy(os.path.join(SRC, pid, "patch%d.diff" % n), os.path.join(d, "patch%d.diff" % k))
        shutil.copy(os.path.join(SRC, pid, "demo%d.py" % n), os.path.join(d, "demo%d.py" % k))
        notes = {}
        try:
            notes = json.load(open(os.path.join(SRC, pid, "notes.json"))).get("patch%d" % n, {})
        except Exception:
            pass
        mp = os.path.join(d, "meta.json")
        meta = json.load(open(mp)) if os.path.exists(mp) else {"property": pid, "changes": {}}
        dd = det.get((pid, n), {})
        meta["changes"]["patch%d" % k] = {
            "breaks_property": pid, "round": 1 + off // 2, "summary": notes.get("summary"), "needs_to_manifest": notes.get("needs_to_manifest"), "files": notes.get("files"),
            "written_by": "independent sub-agent given only the property text and a scratch worktree",
            "confirmed_by_me": {"command": "SEED_OUT=%s tools/confirm_seed.sh %s %d (scratch worktree /tmp/seed/%s: git apply; pytest -q -x; demo; git checkout; demo)" % (SRC, pid, n, pid), **c},
            "checks_run_against_it": dd,
        }
        json.dump(meta, open(mp, "w"), indent=1)
        caught = [kk for kk, v in dd.items() if v["exit"] == "1" and v["violations"] > 0]
        rows.append((pid, k, (notes.get("summary") or "")[:120].replace("|", "/").replace("\n", " "), ", ".join("%s(%s)" % (kk, "VIOLATION x%d" % v["violations"] if v["exit"] == "1" else ("harness-error" if v["exit"] == "2" else "exit 0, %d inconclusive" % v["inconclusive"])) for kk, v in sorted(dd.items())), "yes: " + ", ".join(caught) if caught else "NO"))

# benign refactorings
ben = parse_det(["/verif/out/matrix_benign*.tsv"])
brow = []
bd = os.path.join(DST, "benign")
os.makedirs(bd, exist_ok=True)
for (rid, n), dd in sorted(ben.items()):
    src = "/tmp/seed/out3/%s/patch%d.diff" % (rid, n)
    if os.path.exists(src):
        shutil.copy(src, os.path.join(bd, "%s_patch%d.diff" % (rid, n)))
    notes = {}
    try:
        notes = json.load(open("/tmp/seed/out3/%s/notes.json" % rid)).get("patch%d" % n, {})
    except Exception:
        pass
    brow.append((rid, n, (notes.get("summary") or "")[:140].replace("|", "/").replace("\n", " "), ", ".join("%s(exit %s%s)" % (kk, v["exit"], ", %d inconclusive" % v["inconclusive"] if v["inconclusive"] else "") for kk, v in sorted(dd.items()))))

with open(os.path.join(DST, "MATRIX.md"), "w") as f:
    f.write("# Seeded changes x checks (quick tier)\n\nEach seeded change passes the 99-test suite; its demonstration fails with it and passes without (patch1/2: first round, patch3/4: second round, patch5/6: third round of independent sub-agents).\n\n| seed | what it changes | checks run (result) | caught |\n|---|---|---|---|\n")
    for r in rows:
        f.write("| %s/patch%d | %s | %s | %s |\n" % r)
    n_c = sum(1 for r in rows if r[4].startswith("yes"))
    f.write("\n%d of %d seeded changes are reported as VIOLATION by at least one quick check.\n" % (n_c, len(rows)))
    f.write("\n# Behaviour-preserving refactorings x checks\n\nWritten by sub-agents asked for substantial refactorings that keep every result identical (test-suite green, recorded reference values reproduced). A check must stay quiet on these: exit 0 (inconclusive obligations allowed), no VIOLATION, no harness error. Rows show the LAST run of each check.\n\n| refactoring | what it changes | checks run (result) |\n|---|---|---|\n")
    for r in brow:
        f.write("| %s/patch%d | %s | %s |\n" % r)
print("kept", len(rows), "seeds;", len(brow), "benign refactorings")
