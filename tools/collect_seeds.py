#!/usr/bin/env python3
"""Copy confirmed seeded changes from the sub-agents' output into /verif/seeded/<id>/ with meta.json, and write seeded/MATRIX.md
from the seed-matrix TSV files (tools/seed_matrix.sh)."""
import json, os, re, shutil, glob, sys
SRC = "/tmp/seed/out"; DST = "/verif/seeded"
conf = {}
for log in glob.glob("/tmp/seed/confirm*.log"):
    for line in open(log):
        m = re.match(r"(C\d+)/(\d): tests_exit=(\d+) \[(.*?)\] demo_with=(\d+) demo_without=(\d+)", line)
        if m:
            conf[(m.group(1), int(m.group(2)))] = dict(tests_exit=int(m.group(3)), tests=m.group(4), demo_with_patch_exit=int(m.group(5)), demo_without_patch_exit=int(m.group(6)))
det = {}
for tsv in sorted(glob.glob("/verif/out/matrix*.tsv")):
    for line in open(tsv):
        f = line.rstrip("\n").split("\t")
        if len(f) >= 7:
            det.setdefault((f[0], int(f[1])), {})[f[2]] = dict(exit=f[3].split("=")[1], violations=int(f[4].split("=")[1]), harness_errors=int(f[5].split("=")[1]), inconclusive=int(f[6].split("=")[1]), first=(f[7] if len(f) > 7 else ""))
rows = []
for (pid, n), c in sorted(conf.items()):
    ok = c["tests_exit"] == 0 and "99 passed" in c["tests"] and c["demo_with_patch_exit"] != 0 and c["demo_without_patch_exit"] == 0
    if not ok:
        print("NOT kept (confirmation failed):", pid, n, c)
        continue
    d = os.path.join(DST, pid)
    os.makedirs(d, exist_ok=True)
    for fn in ("patch%d.diff" % n, "demo%d.py" % n):
        shutil.copy(os.path.join(SRC, pid, fn), os.path.join(d, fn))
    notes = {}
    try:
        notes = json.load(open(os.path.join(SRC, pid, "notes.json"))).get("patch%d" % n, {})
    except Exception:
        pass
    mp = os.path.join(d, "meta.json")
    meta = json.load(open(mp)) if os.path.exists(mp) else {"property": pid, "changes": {}}
    meta["changes"]["patch%d" % n] = {
        "breaks_property": pid, "summary": notes.get("summary"), "needs_to_manifest": notes.get("needs_to_manifest"), "files": notes.get("files"),
        "written_by": "independent sub-agent given only the property text and a scratch worktree",
        "confirmed_by_me": {"command": "tools/confirm_seed.sh %s %d (scratch worktree /tmp/seed/%s: git apply; pytest -q -x; demo; git checkout; demo)" % (pid, n, pid), **c},
        "checks_run_against_it": det.get((pid, n), {}),
    }
    json.dump(meta, open(mp, "w"), indent=1)
    dd = det.get((pid, n), {})
    caught = [k for k, v in dd.items() if v["exit"] == "1" and v["violations"] > 0]
    rows.append((pid, n, (notes.get("summary") or "")[:110].replace("|", "/"), ", ".join("%s(%s)" % (k, "VIOLATION x%d" % v["violations"] if v["exit"] == "1" else ("harness-error" if v["exit"] == "2" else "exit 0, %d inconclusive" % v["inconclusive"])) for k, v in sorted(dd.items())), "yes: " + ", ".join(caught) if caught else "NO"))
with open(os.path.join(DST, "MATRIX.md"), "w") as f:
    f.write("# Seeded changes x checks (quick tier)\n\nEach change passes the 99-test suite; its demonstration fails with it and passes without.\n\n| seed | what it changes | checks run (result) | caught |\n|---|---|---|---|\n")
    for r in rows:
        f.write("| %s/patch%d | %s | %s | %s |\n" % r)
    n_c = sum(1 for r in rows if r[4].startswith("yes"))
    f.write("\n%d of %d seeded changes are reported as VIOLATION by at least one quick check.\n" % (n_c, len(rows)))
print("kept", len(rows))
