#!/bin/bash
# tools/confirm_seed.sh <Cxx> <n>: confirm in the scratch worktree that patch n keeps the test-suite green, its demo fails with it and passes without
id=$1; n=$2; wt=/tmp/seed/$id; out=${SEED_OUT:-/tmp/seed/out}/$id
cd $wt || exit 2
git checkout -q -- . ; git clean -fdq -e __pycache__ >/dev/null 2>&1
[ -f $out/patch$n.diff ] || { echo "$id/$n: no patch"; exit 2; }
git apply $out/patch$n.diff || { echo "$id/$n: patch does not apply"; exit 2; }
export NUMBA_CACHE_DIR=/tmp/seed/nbcache_$id
/venv/bin/python -m pytest -q -p no:cacheprovider --timeout=900 -x > $out/tests$n.log 2>&1; t=$?
tests=$(tail -1 $out/tests$n.log)
/venv/bin/python $out/demo$n.py > $out/demo$n.with.log 2>&1; dw=$?
git checkout -q -- .
/venv/bin/python $out/demo$n.py > $out/demo$n.without.log 2>&1; dwo=$?
echo "$id/$n: tests_exit=$t [$tests] demo_with=$dw demo_without=$dwo"
