#!/bin/bash
# tools/finalize.sh -- regenerate MATRIX.md, evidence (quick tier on the clean /repo), MANIFEST.json; validate; does NOT commit
cd /verif
python3 tools/collect_seeds.py | tail -1
[ -z "$(git -C /repo status --short)" ] || { echo "/repo is not clean"; exit 1; }
for c in C01 C02 C03 C04 C05 C06 C07 C08 C09 C10 C11 C12 C13 C14 C15 C16 C17 C18 C19 C20; do
  s=$(date +%s); ./check $c quick > out/quick_$c.log 2>&1; rc=$?
  echo "$c exit=$rc $(( $(date +%s)-s ))s $(tail -1 out/quick_$c.log | cut -c1-170)"
done
python3 gen_manifest.py
python3-vt -c "
import json, jsonschema, glob
jsonschema.validate(json.load(open('/verif/MANIFEST.json')), json.load(open('/root/.vp/MANIFEST.schema.json')))
es=json.load(open('/root/.vp/EVIDENCE.schema.json'))
for f in sorted(glob.glob('/verif/evidence/*.json')): jsonschema.validate(json.load(open(f)), es)
print('manifest and evidence valid')"
