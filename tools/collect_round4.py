#!/usr/bin/env python3
"""NOTE: /tmp/seed (the round-4 agents' output and scratch worktrees) was removed after the final collection; everything is kept
under seeded/.  Round 4 (one change per property, ten properties): copy the confirmed seeded changes from /tmp/seed/out/<id>/{patch7.diff,demo7.py,meta7.json}
into /verif/seeded/<id>/ (as patch7/demo7, entry in meta.json) and append a round-4 section to seeded/MATRIX.md from out/matrix_r4_*.tsv
(tools/seed_matrix.sh).  Rounds 1-3 are left as they are (their scratch directories are gone)."""
import json, os, re, shutil, glob
DST = "/verif/seeded"
SRC = "/tmp/seed/out"
rows = []
for pid in sorted(os.listdir(SRC)):
    cf = os.path.join(SRC, pid, "confirm7.txt")
    if not os.path.exists(cf):
        continue
    m = re.search(r"tests_exit=(\d+) \[(.*?)\] demo_with=(\d+) demo_without=(\d+)", open(cf).read())
    if not m:
        print("no confirmation for", pid); continue
    c = dict(tests_exit=int(m.group(1)), tests=m.group(2), demo_with_patch_exit=int(m.group(3)), demo_without_patch_exit=int(m.group(4)))
    if not (c["tests_exit"] == 0 and "99 passed" in c["tests"] and c["demo_with_patch_exit"] != 0 and c["demo_without_patch_exit"] == 0):
        print("NOT kept (confirmation failed):", pid, c); continue
    det = {}
    for tsv in sorted(glob.glob("/verif/out/matrix_r4_%s*.tsv" % pid), key=lambda p: (p.endswith("_b.tsv"), p)):   # *_b.tsv: re-runs with the machinery as committed after the round
        for line in open(tsv):
            f = line.rstrip("\n").split("\t")
            if len(f) >= 7 and f[3].startswith("exit=") and f[0] == pid:
                det[f[2]] = dict(exit=f[3].split("=")[1], violations=int(f[4].split("=")[1]), harness_errors=int(f[5].split("=")[1]), inconclusive=int(f[6].split("=")[1]), first=(f[7] if len(f) > 7 else ""))
    d = os.path.join(DST, pid)
    shutil.copy(os.path.join(SRC, pid, "patch7.diff"), os.path.join(d, "patch7.diff"))
    shutil.copy(os.path.join(SRC, pid, "demo7.py"), os.path.join(d, "demo7.py"))
    try:
        notes = json.load(open(os.path.join(SRC, pid, "meta7.json")))
    except Exception:
        notes = {}
    mp = os.path.join(d, "meta.json")
    meta = json.load(open(mp))
    meta["changes"]["patch7"] = {
        "breaks_property": pid, "round": 4, "summary": notes.get("summary"), "needs_to_manifest": notes.get("needs"), "files": notes.get("files"),
        "written_by": "independent sub-agent given only the property text and a scratch worktree",
        "confirmed_by_me": {"command": "tools/confirm_seed.sh %s 7 (scratch worktree /tmp/seed/%s: git apply; pytest -q -x; demo; git checkout; demo)" % (pid, pid), **c},
        "checks_run_against_it": det,
    }
    json.dump(meta, open(mp, "w"), indent=1)
    caught = [k for k, v in det.items() if v["exit"] == "1" and v["violations"] > 0]
    rows.append((pid, (notes.get("summary") or "")[:140].replace("|", "/").replace("\n", " "),
                 ", ".join("%s(%s)" % (k, "VIOLATION x%d" % v["violations"] if v["exit"] == "1" else ("harness-error" if v["exit"] == "2" else "exit 0, %d inconclusive" % v["inconclusive"])) for k, v in sorted(det.items())),
                 "yes: " + ", ".join(caught) if caught else "NO"))
mdp = os.path.join(DST, "MATRIX.md")
md = open(mdp).read()
prev_rows = [l for l in (md.split("\n## Round 4")[1].splitlines() if "\n## Round 4" in md else []) if l.startswith("| C")]   # rows of earlier batches are kept
md = md.split("\n## Round 4")[0].rstrip("\n") + "\n"
md += "\n## Round 4 (one change per property for fourteen properties: ten, then C03 C09 C17 C20; state kept between calls, caches, in-place updates of shared arrays)\n\n"
md += "Quick tier, machinery as committed after the round (the obligations added because of this round are listed in DESIGN.md section 10).\n\n"
md += "| change | what it does | checks run against it (quick tier) | reported as VIOLATION |\n|---|---|---|---|\n"
lines = {l.split("|")[1].strip(): l for l in prev_rows}
for r in rows:
    lines["%s/patch7" % r[0]] = "| %s/patch7 | %s | %s | %s |" % r
md += "\n".join(lines[k] for k in sorted(lines)) + "\n"
open(mdp, "w").write(md)
print("kept", len(rows), "caught", sum(1 for r in rows if r[3].startswith("yes")))
