#!/bin/bash
# tools/run_thorough.sh [Cxx ...]  -- run the thorough tier end to end (used once for sizing; evidence goes to out/thorough_evidence)
cd "$(dirname "$0")/.."
mkdir -p out/thorough_evidence
export SYMX_EVIDENCE_DIR=$PWD/out/thorough_evidence
[ -n "$VP_RUN_REPO" ] && export SYMX_REPO=$VP_RUN_REPO
for c in ${@:-C10 C11 C20 C06 C13 C15 C17 C05 C09 C07 C08 C14 C16 C19 C03 C12 C18 C04 C02 C01}; do
  s=$(date +%s)
  ./check $c thorough > out/thorough_$c.log 2>&1; rc=$?
  e=$(date +%s)
  echo "$c exit=$rc $((e-s))s $(tail -1 out/thorough_$c.log)"
done
